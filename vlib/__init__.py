"""verification library for pydsol-core runtime monitors (see /verif/DESIGN.md)"""
