"""
Exact-arithmetic oracle (fractions.Fraction - every float is an exact rational) for the textbook statistics
of Tally / WeightedTally / TimestampWeightedTally, with conditioning-aware tolerances.
"""
import math
from fractions import Fraction
from statistics import NormalDist

EPS = 2.0 ** -52
ILL = 1e-3          # a relative tolerance above this means: too ill-conditioned to judge the value


def fsqrt(fr):
    """sqrt of a non-negative Fraction as float (scaled to avoid overflow/underflow of float(fr))"""
    if fr <= 0:
        return 0.0
    return math.sqrt(fr.numerator) / math.sqrt(fr.denominator) if fr.numerator < 2 ** 1000 and fr.denominator < 2 ** 1000 \
        else float(Fraction(math.isqrt(fr.numerator * 2 ** 200 // fr.denominator), 2 ** 100))


def _safe_float(x):
    try:
        return float(x)
    except OverflowError:
        return math.inf if x > 0 else -math.inf


class ExactTally:
    """power sums as exact rationals; all documented statistics derived from them"""

    def __init__(self):
        self.reset()

    def reset(self):
        self.n = 0
        self.s1 = self.s2 = self.s3 = self.s4 = Fraction(0)
        self.min = math.nan
        self.max = math.nan
        self.fsum = 0.0          # the library documents sum as a running float sum: same operation order
        self.maxabs = 0.0
        self.sumabs = 0.0

    def add(self, x):
        fx = Fraction(x)
        self.n += 1
        self.s1 += fx
        x2 = fx * fx
        self.s2 += x2
        self.s3 += x2 * fx
        self.s4 += x2 * x2
        xf = float(x)
        self.min = xf if self.n == 1 else min(self.min, xf)
        self.max = xf if self.n == 1 else max(self.max, xf)
        self.fsum += x
        self.maxabs = max(self.maxabs, abs(xf))
        self.sumabs += abs(xf)

    def central(self):
        n = self.n
        mu = self.s1 / n
        m2 = self.s2 - self.s1 * mu
        m3 = self.s3 - 3 * mu * self.s2 + 3 * mu * mu * self.s1 - n * mu ** 3
        m4 = self.s4 - 4 * mu * self.s3 + 6 * mu * mu * self.s2 - 4 * mu ** 3 * self.s1 + n * mu ** 4
        return mu, m2, m3, m4

    def expected_first_order(self, alphas):
        """n, min, max, sum, mean with tolerances; every other getter 'totality only' (values so far apart that the higher
        moments leave the float range)"""
        n = self.n
        out = {"n": (n, 0), "min": (self.min, 0), "max": (self.max, 0), "sum": (_safe_float(self.s1), 4 * max(n, 1) * EPS * self.sumabs)}
        for k in ["variance_b", "variance_u", "stdev_b", "stdev_u", "skewness_b", "skewness_u", "kurtosis_b", "kurtosis_u", "excess_b", "excess_u"]:
            out[k] = (math.nan, "any")
        for a in alphas:
            out[f"ci_{a}"] = ((math.nan, math.nan), "any")
        out["mean"] = (_safe_float(self.s1 / n), 64 * n * EPS * self.maxabs) if n else (math.nan, 0)
        return out

    def expected(self, alphas):
        """dict getter -> (value, abs_tolerance or None when only totality is judged)"""
        n = self.n
        nan = math.nan
        out = {"n": (n, 0), "min": (self.min, 0), "max": (self.max, 0)}
        out["sum"] = (float(self.s1), 4 * max(n, 1) * EPS * self.sumabs)
        names = ["mean", "variance_b", "variance_u", "stdev_b", "stdev_u", "skewness_b", "skewness_u", "kurtosis_b",
                 "kurtosis_u", "excess_b", "excess_u"]
        for k in names:
            out[k] = (nan, 0)
        for a in alphas:
            out[f"ci_{a}"] = ((nan, nan), 0)
        if n == 0:
            return out
        mu, m2, m3, m4 = self.central()
        M = self.maxabs
        tmean = 64 * n * EPS * M
        out["mean"] = (float(mu), tmean)
        varb = m2 / n
        sig = fsqrt(varb)
        kappa = 1.0 + (M / sig if sig > 0 else math.inf)
        if m2 == 0:
            rel2 = 0.0          # exactly zero variance: the recurrences stay exactly 0
        else:
            rel2 = 256 * n * EPS * kappa
        rel4 = 256 * n * EPS * kappa * kappa if m2 != 0 else 0.0

        def put(name, val, rel, absfloor=0.0):
            if rel > ILL:
                out[name] = (val, None)
            else:
                out[name] = (val, abs(val) * rel + absfloor)

        put("variance_b", float(varb), rel2)
        put("stdev_b", sig, rel2)
        if n >= 2:
            varu = m2 / (n - 1)
            put("variance_u", float(varu), rel2)
            put("stdev_u", fsqrt(varu), rel2)
            if m2 != 0:
                # exact: skew = (m3/n) / varb^(3/2)
                skb = float(Fraction(m3, n) / varb) / sig if sig > 0 else nan
                put("skewness_b", skb, rel4, rel4)
                if n >= 3:
                    put("skewness_u", skb * math.sqrt(n * (n - 1)) / (n - 2), rel4, rel4 * math.sqrt(n * (n - 1)) / (n - 2))
            # confidence interval (n >= 2), clipped to [min, max]
            for a in alphas:
                level = 1.0 - a / 2.0
                z = math.inf if level >= 1.0 else NormalDist(0.0, 1.0).inv_cdf(level)
                half = z * fsqrt(varu / n) if fsqrt(varu / n) > 0 else 0.0
                lo = max(self.min, float(mu) - half)
                hi = min(self.max, float(mu) + half)
                t = None if rel2 > ILL else tmean + abs(half if math.isfinite(half) else 0.0) * rel2 + 16 * EPS * M
                out[f"ci_{a}"] = ((lo, hi), t)
        if n >= 3 and m2 != 0:
            kb = float(Fraction(m4, n) / (varb * varb))
            put("kurtosis_b", kb, rel4)
            out["excess_b"] = (kb - 3.0, None if rel4 > ILL else abs(kb) * rel4 + 8 * EPS)
            if n >= 4:
                varu = m2 / (n - 1)
                ku = float(Fraction(m4, n - 1) / (varu * varu))
                put("kurtosis_u", ku, rel4)
                f = (n - 1) / ((n - 2) * (n - 3))
                eu = f * ((n + 1) * (kb - 3.0) + 6)
                out["excess_u"] = (eu, None if rel4 > ILL else f * (n + 1) * abs(kb) * rel4 + abs(eu) * 16 * EPS + 64 * EPS)
        return out


class ExactWeighted:
    """weighted statistics over the positively weighted observations"""

    def __init__(self):
        self.reset()

    def reset(self):
        self.n = 0
        self.npos = 0
        self.W = Fraction(0)
        self.wx = Fraction(0)
        self.wx2 = Fraction(0)
        self.min = math.nan
        self.max = math.nan
        self.maxabs = 0.0
        self.sumabs_wx = 0.0

    def add(self, w, x):
        self.n += 1
        xf = float(x)
        self.min = xf if self.n == 1 else min(self.min, xf)
        self.max = xf if self.n == 1 else max(self.max, xf)
        if w > 0:
            self.npos += 1
            fw, fx = Fraction(w), Fraction(x)
            self.W += fw
            self.wx += fw * fx
            self.wx2 += fw * fx * fx
            self.maxabs = max(self.maxabs, abs(xf))
            self.sumabs_wx += abs(float(w) * xf)

    def expected(self):
        nan = math.nan
        out = {"n": (self.n, 0), "min": (self.min, 0), "max": (self.max, 0)}
        n = max(self.npos, 1)
        out["weighted_sum"] = (float(self.wx), 8 * n * EPS * self.sumabs_wx)
        for k in ("weighted_mean", "weighted_variance_b", "weighted_variance_u", "weighted_stdev_b", "weighted_stdev_u"):
            out[k] = (nan, "any" if self.n > 0 and self.W == 0 else 0)
        if self.n == 0 or self.W == 0:
            return out       # total weight 0: undefined; only totality (float or NaN) is judged
        mu = self.wx / self.W
        M = self.maxabs
        out["weighted_mean"] = (float(mu), 64 * n * EPS * M)
        var = self.wx2 / self.W - mu * mu
        if var < 0:
            var = Fraction(0)
        sig = fsqrt(var)
        kappa = 1.0 + (M / sig if sig > 0 else math.inf)
        # the incremental weighted update cancels (x - new_mean) against the mean itself when one weight dominates:
        # the attainable accuracy scales with kappa^2 (observed), not kappa
        rel = 0.0 if var == 0 else 256 * n * EPS * kappa * kappa

        def put(name, val):
            out[name] = (val, None if rel > ILL else abs(val) * rel)

        put("weighted_variance_b", float(var))
        put("weighted_stdev_b", sig)
        if self.npos >= 2:
            f = Fraction(self.npos, self.npos - 1)
            put("weighted_variance_u", float(var * f))
            put("weighted_stdev_u", fsqrt(var * f))
        return out


def close(got, want, tol):
    """NaN-aware closeness; tol None = only 'is a float' is judged; tol 'any' = float or NaN"""
    if isinstance(want, tuple):
        return isinstance(got, tuple) and len(got) == len(want) and all(close(g, w, tol) for g, w in zip(got, want))
    if tol == "any":
        return isinstance(got, (int, float))
    if not isinstance(got, (int, float)) or isinstance(got, bool):
        return False
    if want != want:
        return got != got
    if tol is None:
        return True      # ill-conditioned: the float recurrences may legitimately see zero variance (NaN) here
    if got != got:
        return False
    if math.isinf(want) or math.isinf(got):
        return want == got
    return abs(got - want) <= tol
