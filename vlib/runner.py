"""
Generic driver: shards a check's cases over fresh child interpreters, merges what the monitors
observed, classifies violations against known_findings.json, writes evidence and replay files.

Check-module protocol (checks/cNN_*.py):
    ID, LEVEL, RULE, ASSUMPTIONS, TECHNIQUE
    plan(tier) -> {"cases": int, "shards": int, "timeout": s, "min_nontrivial": int, "min": {counter: n}}
    gen_case(rng, tier, i) -> JSON-able case          (rng seeded from (VERIF_SEED, ID, i))
    run_case(case, ctx)                                (ctx.viol / ctx.count / ctx.seen / ctx.nontrivial)
    optional shard_setup(tier, ctx), parent_phase(tier, seed, ctx)
"""
import importlib
import json
import os
import subprocess
import sys
import time
import traceback

from vlib import base

CHECKS = {
    "C01": "checks.c01_eventlist", "C02": "checks.c02_devs_order", "C03": "checks.c03_horizon",
    "C04": "checks.c04_lifecycle", "C05": "checks.c05_faults", "C06": "checks.c06_replications",
    "C07": "checks.c07_repro", "C08": "checks.c08_pubsub", "C09": "checks.c09_tally",
    "C10": "checks.c10_weighted", "C11": "checks.c11_simstats", "C12": "checks.c12_streams",
    "C13": "checks.c13_seeds", "C14": "checks.c14_draws", "C15": "checks.c15_density",
    "C16": "checks.c16_quantity", "C17": "checks.c17_units", "C18": "checks.c18_params",
}


class Ctx:
    """what one shard (or the parent phase) observed"""

    def __init__(self):
        self.counters = {}
        self.seen_sets = {}
        self.viols = {}          # sig -> {"count", "index", "case", "detail"}
        self.nontrivial = False
        self.nt_hashes = set()
        self.samples = []
        self.evaluations = 0
        self._cur = (None, None)
        self.shard, self.nshards = 0, 1

    def count(self, name, n=1):
        self.counters[name] = self.counters.get(name, 0) + n

    def seen(self, name, key):
        s = self.seen_sets.setdefault(name, set())
        if len(s) < 20000:
            s.add(key if isinstance(key, str) else base.canon(key))

    def viol(self, sig, detail=None):
        e = self.viols.get(sig)
        if e is None:
            idx, case = self._cur
            self.viols[sig] = {"count": 1, "index": idx, "case": case, "detail": base.short(detail, 4000)}
        else:
            e["count"] += 1

    def begin(self, idx, case):
        self._cur = (idx, case)
        self.nontrivial = False

    def end(self, case):
        self.evaluations += 1
        if self.nontrivial:
            self.nt_hashes.add(base.chash(case))
            if len(self.samples) < 2:
                self.samples.append(base.short(case, 2500))

    def dump(self):
        return {"counters": self.counters,
                "seen": {k: sorted(v) for k, v in self.seen_sets.items()},
                "viols": self.viols, "nt": sorted(self.nt_hashes), "samples": self.samples,
                "evaluations": self.evaluations}

    def merge(self, d):
        for k, v in d["counters"].items():
            self.count(k, v)
        for k, v in d["seen"].items():
            self.seen_sets.setdefault(k, set()).update(v)
        for sig, e in d["viols"].items():
            if sig in self.viols:
                self.viols[sig]["count"] += e["count"]
            else:
                self.viols[sig] = e
        self.nt_hashes.update(d["nt"])
        for s in d["samples"]:
            if len(self.samples) < 4:
                self.samples.append(s)
        self.evaluations += d["evaluations"]


def load(pid):
    return importlib.import_module(CHECKS[pid])


def case_for(mod, tier, seed, i):
    return mod.gen_case(base.rng_for(seed, mod.ID, tier, i), tier, i)


def run_one(mod, case, ctx, idx=None):
    ctx.begin(idx, case)
    try:
        mod.run_case(case, ctx)
    except Exception as e:  # the harness itself failed on this case: report, never hide
        if type(e).__name__ == "Runaway":
            ctx.viol("runaway:events-executed-far-more-often-than-scheduled", {"executions": str(e)})
            ctx.end(case)
            return
        tb = traceback.extract_tb(e.__traceback__)
        where = "?"
        for fr in reversed(tb):
            if "/checks/" in fr.filename or "/vlib/" in fr.filename:
                where = f"{os.path.basename(fr.filename)}:{fr.name}"
                break
        ctx.viol(f"harness-exception:{type(e).__name__}@{where}", traceback.format_exc()[-3000:])
    ctx.end(case)


def worker_main(argv):
    pid, tier, seed, shard, nshards, out = argv[0], argv[1], int(argv[2]), int(argv[3]), int(argv[4]), argv[5]
    base.ensure_deps()
    base.assert_tree()
    mod = load(pid)
    plan = mod.plan(tier)
    ctx = Ctx()
    ctx.shard, ctx.nshards = shard, nshards
    cov = None
    if os.environ.get("VERIF_COVERAGE"):
        # diagnostic only (tools/reach.sh): which library lines do the workloads of this check drive at all?
        import coverage
        cov = coverage.Coverage(data_file=os.path.join(os.environ["VERIF_COVERAGE"], f"cov.{pid}"), data_suffix=True,
                                include=[os.path.join(base.REPO, "src", "pydsol", "core", "*")])
        cov.start()
    curfd = os.open(out + ".cur", os.O_WRONLY | os.O_CREAT | os.O_TRUNC, 0o644)
    code = 0
    try:
        if hasattr(mod, "shard_setup"):
            mod.shard_setup(tier, ctx)
        n = plan["cases"]
        for i in range(shard, n, nshards):
            os.pwrite(curfd, b"%-12d" % i, 0)
            case = case_for(mod, tier, seed, i)
            run_one(mod, case, ctx, i)
        if hasattr(mod, "shard_teardown"):
            mod.shard_teardown(tier, ctx)
        os.pwrite(curfd, b"%-12d" % -1, 0)
    except BaseException:
        ctx.viol("harness-exception:shard", traceback.format_exc()[-3000:])
        code = 3
    if cov is not None:
        cov.stop()
        cov.save()
    with open(out, "w") as fh:
        json.dump(ctx.dump(), fh, default=base._default)
    sys.stdout.flush()
    sys.stderr.flush()
    os._exit(code)   # worker threads of leaked simulators are non-daemon


def replay_child(argv):
    """run exactly one stored case in a fresh interpreter"""
    pid, path, out = argv[0], argv[1], argv[2]
    base.ensure_deps()
    base.assert_tree()
    mod = load(pid)
    rec = json.load(open(path))
    ctx = Ctx()
    if hasattr(mod, "shard_setup"):
        mod.shard_setup(rec.get("tier", "quick"), ctx)
    run_one(mod, rec["case"], ctx, rec.get("index"))
    with open(out, "w") as fh:
        json.dump(ctx.dump(), fh, default=base._default)
    sys.stdout.flush()
    os._exit(0)


def load_findings():
    p = os.path.join(base.ROOT, "known_findings.json")
    try:
        return json.load(open(p)).get("findings", [])
    except FileNotFoundError:
        return []


def write_replay(pid, tier, seed, sig, e):
    d = os.path.join(base.ROOT, "replays" if os.path.realpath(base.REPO) == "/repo" else os.path.join(".tmp", "replays-scratch"), pid)
    os.makedirs(d, exist_ok=True)
    rec = {"property": pid, "tier": tier, "seed": seed, "index": e.get("index"), "signature": sig,
           "case": e.get("case"), "detail": e.get("detail"), "count": e.get("count"),
           "tree": base.tree_fingerprint()}
    path = os.path.join(d, base.chash([sig, e.get("case")]) + ".json")
    with open(path, "w") as fh:
        json.dump(rec, fh, indent=1, default=base._default)
    return path


def classify_and_report(pid, tier, seed, ctx, inconclusive):
    """prints KNOWN-FINDING / VIOLATION / INCONCLUSIVE lines; returns (exit code, n_unlisted, known list)"""
    findings = [f for f in load_findings() if f.get("property") == pid]
    known = {f["signature"]: f for f in findings if f.get("status") == "known"}
    unlisted = 0
    known_hit = []
    for sig in sorted(ctx.viols):
        e = ctx.viols[sig]
        if sig in known:
            print(f"KNOWN-FINDING: property={pid} {sig}: {known[sig].get('what', '')} (seen {e['count']}x)")
            known_hit.append(sig)
        else:
            path = write_replay(pid, tier, seed, sig, e)
            unlisted += 1
            print(f"VIOLATION property={pid} replay={path}")
            print(f"  signature={sig} count={e['count']}")
            print("  detail=" + base.canon(e.get("detail"))[:1200])
    if unlisted:
        return 1, unlisted, known_hit
    if inconclusive:
        for r in inconclusive:
            print(f"INCONCLUSIVE property={pid} reason={r}")
        return 2, 0, known_hit
    return 0, 0, known_hit


def run_check(pid, tier, seed):
    t0 = time.time()
    base.ensure_deps()
    mod = load(pid)
    plan = mod.plan(tier)
    nshards = max(1, min(plan.get("shards", 16), plan["cases"])) if plan["cases"] else 0
    tmp = os.path.join(base.ROOT, ".tmp", f"{pid}-{tier}-{os.getpid()}")
    os.makedirs(tmp, exist_ok=True)
    procs = []
    for k in range(nshards):
        out = os.path.join(tmp, f"shard{k}.json")
        log = open(os.path.join(tmp, f"shard{k}.log"), "w")
        p = subprocess.Popen([base.PY, "-B", "-m", "vlib.worker", pid, tier, str(seed), str(k), str(nshards), out],
                             env=base.child_env(), stdout=log, stderr=subprocess.STDOUT, cwd=base.ROOT)
        procs.append((k, p, out, log))
    ctx = Ctx()
    inconclusive = []
    deadline = t0 + plan.get("timeout", 600)
    nhang = [0]
    for k, p, out, log in procs:
        try:
            p.wait(timeout=max(1.0, deadline - time.time()))
        except subprocess.TimeoutExpired:
            p.kill()
            p.wait()
            nhang[0] += 1
            hung = _hung_case(mod, pid, tier, seed, out, tmp, k) if nhang[0] <= 2 else None
            if hung is not None:
                ctx.viols.setdefault(hung[0], hung[1])
            else:
                inconclusive.append(f"shard {k} exceeded the wall-clock watchdog ({plan.get('timeout', 600)} s)")
        log.close()
        if os.path.exists(out):
            ctx.merge(json.load(open(out)))
        elif p.returncode is not None and p.returncode != -9:
            txt = open(os.path.join(tmp, f"shard{k}.log")).read()[-2500:]
            ctx.viol(f"harness-exception:shard-died:{p.returncode}", txt)
    if hasattr(mod, "parent_phase"):
        try:
            mod.parent_phase(tier, seed, ctx)
        except Exception:
            ctx.viol("harness-exception:parent_phase", traceback.format_exc()[-3000:])
    # monitor-reach minima: the deciding monitor must have observed enough
    for name, need in plan.get("min", {}).items():
        have = ctx.counters.get(name, 0)
        if have < need:
            inconclusive.append(f"monitor counter {name}={have} below minimum {need}")
    if len(ctx.nt_hashes) < plan.get("min_nontrivial", 2):
        inconclusive.append(f"distinct non-trivial cases {len(ctx.nt_hashes)} below minimum "
                            f"{plan.get('min_nontrivial', 2)}")
    code, unlisted, known_hit = classify_and_report(pid, tier, seed, ctx, inconclusive)
    wall = time.time() - t0
    write_evidence(mod, pid, tier, seed, ctx, wall, unlisted, known_hit, inconclusive, plan)
    _rmtree(tmp)
    print(f"{pid} {tier} seed={seed}: evaluations={ctx.evaluations} distinct_nontrivial={len(ctx.nt_hashes)} "
          f"violation_signatures={len(ctx.viols)} unlisted={unlisted} wall={wall:.1f}s exit={code}")
    return code


def _hung_case(mod, pid, tier, seed, out, tmp, k):
    """a shard hit the watchdog: re-run the case it was executing alone; a second hang is a verdict"""
    try:
        idx = int(open(out + ".cur").read().strip())
    except Exception:
        return None
    if idx < 0:
        return None
    case = case_for(mod, tier, seed, idx)
    path = os.path.join(tmp, f"hang{k}.json")
    json.dump({"case": case, "index": idx, "tier": tier}, open(path, "w"), default=base._default)
    rout = os.path.join(tmp, f"hang{k}.out")
    try:
        subprocess.run([base.PY, "-B", "-m", "vlib.worker", "--replay", pid, path, rout], env=base.child_env(),
                       timeout=mod.plan(tier).get("hang_timeout", 60), cwd=base.ROOT,
                       stdout=subprocess.DEVNULL, stderr=subprocess.DEVNULL)
        return None
    except subprocess.TimeoutExpired:
        return ("hang:case-does-not-terminate", {"count": 1, "index": idx, "case": case,
                "detail": "case did not finish within the isolated re-run watchdog either"})


def _rmtree(p):
    import shutil
    shutil.rmtree(p, ignore_errors=True)


def write_evidence(mod, pid, tier, seed, ctx, wall, unlisted, known_hit, inconclusive, plan):
    cov = {
        "evaluations": ctx.evaluations,
        "distinct_nontrivial": len(ctx.nt_hashes),
        "rule": mod.RULE,
        "samples": ctx.samples[:4] or [],
        "monitor_counters": dict(sorted(ctx.counters.items())),
        "distinct_observed": {k: len(v) for k, v in sorted(ctx.seen_sets.items())},
        "observed_examples": {k: sorted(v)[:40] for k, v in sorted(ctx.seen_sets.items())},
        "shards": plan.get("shards", 16),
        "tree_fingerprint": base.tree_fingerprint(),
        "known_findings_reobserved": known_hit,
        "violation_signatures": sorted(ctx.viols),
        "inconclusive": inconclusive,
    }
    if getattr(mod, "EXHAUSTIVE", None):
        ex = mod.EXHAUSTIVE(tier) if callable(mod.EXHAUSTIVE) else mod.EXHAUSTIVE
        if ex:
            cov["exhaustive"] = True
            cov["exhaustive_scope"] = ex if isinstance(ex, str) else "see rule"
    ev = {"property_id": pid, "tier": tier, "seed": seed, "level": mod.LEVEL, "coverage": cov,
          "assumptions": list(mod.ASSUMPTIONS), "wall_s": round(wall, 2), "violations": unlisted}
    # evidence describes runs against /repo itself; runs against a scratch copy (VERIF_REPO=..., self-validation on
    # deliberately broken trees) must not overwrite it
    d = os.path.join(base.ROOT, "evidence") if (os.path.realpath(base.REPO) == "/repo" and not os.environ.get("VERIF_COVERAGE")) else os.path.join(base.ROOT, ".tmp", "evidence-scratch")
    os.makedirs(d, exist_ok=True)
    with open(os.path.join(d, pid + ".json"), "w") as fh:
        json.dump(ev, fh, indent=1, default=base._default)


def run_replay(pid, path):
    base.ensure_deps()
    tmp = os.path.join(base.ROOT, ".tmp", f"replay-{os.getpid()}")
    os.makedirs(tmp, exist_ok=True)
    out = os.path.join(tmp, "out.json")
    mod = load(pid)
    try:
        subprocess.run([base.PY, "-B", "-m", "vlib.worker", "--replay", pid, path, out], env=base.child_env(),
                       timeout=mod.plan("quick").get("hang_timeout", 120) + 60, cwd=base.ROOT)
    except subprocess.TimeoutExpired:
        print(f"VIOLATION property={pid} replay={path}\n  signature=hang:case-does-not-terminate")
        return 1
    ctx = Ctx()
    if os.path.exists(out):
        ctx.merge(json.load(open(out)))
    rec = json.load(open(path))
    findings = {f["signature"] for f in load_findings() if f.get("property") == pid and f.get("status") == "known"}
    code = 0
    for sig, e in sorted(ctx.viols.items()):
        if sig in findings:
            print(f"KNOWN-FINDING: property={pid} {sig}")
        else:
            print(f"VIOLATION property={pid} replay={path}\n  signature={sig}\n  detail=" + base.canon(e.get("detail"))[:3000])
            code = 1
    if not ctx.viols:
        print(f"replay of {path}: no violation reproduced (stored signature {rec.get('signature')})")
    _rmtree(tmp)
    return code
