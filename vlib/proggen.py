"""seeded generators of model programs (shared by C02-C07, C11)"""

DUR_UNITS = [("s", 1.0), ("min", 60.0), ("ms", 0.001), ("h", 3600.0)]


def _lit(rng, clock, v):
    """a program literal for the numeric value v (seconds for the duration clock, mixed display units)"""
    if clock == "duration":
        u, f = rng.choice(DUR_UNITS[:3]) if v < 1000 else rng.choice(DUR_UNITS)
        if rng.random() < 0.5:
            return [v / f, u]
        return [float(v), "s"]
    if clock == "int":
        return int(v)
    return rng.choice([float(v), v]) if float(v) == int(v) and rng.random() < 0.2 else float(v)


def gen_program(rng, clock=None, n_events=None, with_bad=True, with_cancel=True, horizon=None, faults=False,
                warm=None, beyond=True):
    clock = clock or rng.choice(["float", "int", "duration"])
    length = horizon or rng.choice([10, 20, 50])
    start = rng.choice([0, 0, 0, 5]) if clock != "duration" else 0
    warmup = warm if warm is not None else rng.choice([0, 0, 2, 5, length // 2, length])
    n = n_events or rng.randint(5, 40)
    step = rng.choice([1, 1, 2, 0.5, 0.25]) if clock != "int" else rng.choice([1, 1, 2, 3])
    grid = [start + k * step for k in range(int((length + 6) / step))]
    hot = rng.sample(grid, min(len(grid), rng.randint(1, 4)))       # a few instants that attract exact ties
    handlers = {}
    init = []
    tags = []
    counter = [0]

    def new_tag():
        counter[0] += 1
        return f"e{counter[0]}"

    def sched_action(cur, from_init):
        """one scheduling action issued at time `cur` (numeric); returns (action, child tag, child time|None)"""
        r = rng.random()
        prio = rng.choice([1, 3, 5, 5, 5, 7, 10])
        tag = new_tag()
        if r < 0.22:
            return ["now", prio, tag], tag, cur
        if r < 0.62:
            cands = [t for t in hot if t >= cur]
            if cands and rng.random() < 0.55:
                d = rng.choice(cands) - cur
            else:
                d = rng.choice([0, step, 2 * step, 3 * step, 5 * step, -0.0 if clock == "float" else 0])
            if not beyond and cur + d > start + length:
                d = 0
            return ["rel", _lit(rng, clock, d), prio, tag], tag, cur + d
        t = rng.choice([g for g in grid if g >= cur] or [cur])
        if rng.random() < 0.4:
            cands = [h for h in hot if h >= cur]
            if cands:
                t = rng.choice(cands)
        if not beyond and t > start + length:
            t = cur
        return [rng.choice(["abs", "abs", "ev"]), _lit(rng, clock, t), prio, tag], tag, t

    frontier = []      # (tag, time) of events that exist and may get handlers
    for _ in range(rng.randint(1, 5)):
        a, tag, t = sched_action(start, True)
        init.append(a)
        frontier.append((tag, t))
        tags.append(tag)
    if with_bad and rng.random() < 0.5:
        init.insert(rng.randrange(len(init) + 1), [rng.choice(["bad_rel", "bad_abs"]), rng.choice(["neg", "nan", "none", "str", "past"])])
    budget = n - len(frontier)
    while budget > 0 and frontier:
        tag, t = frontier.pop(rng.randrange(len(frontier)))
        acts = handlers.setdefault(tag, [])
        for _ in range(rng.choice([0, 1, 1, 2, 3])):
            if budget <= 0:
                break
            a, child, ct = sched_action(t, False)
            acts.append(a)
            frontier.append((child, ct))
            tags.append(child)
            budget -= 1
        if with_cancel and tags and rng.random() < 0.35:
            acts.insert(rng.randrange(len(acts) + 1), ["cancel", rng.choice(tags + [tag])])
        if with_bad and rng.random() < 0.25:
            acts.insert(rng.randrange(len(acts) + 1), [rng.choice(["bad_rel", "bad_abs"]),
                                                       rng.choice(["neg", "negf", "nan", "none", "str", "past", "negtiny"])])
        if faults and rng.random() < faults:
            acts.insert(rng.randrange(len(acts) + 1), ["raise"])
    return {"clock": clock, "rep": {"start": _lit(rng, clock, start) if clock != "duration" else [float(start), "s"],
                                    "warmup": _lit(rng, clock, warmup), "length": _lit(rng, clock, length)},
            "init": init, "handlers": handlers}
