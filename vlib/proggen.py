"""seeded generators of model programs (shared by C02-C07, C11)"""

# (the factors are this table's own - the reference converts with them, never with the library's unit table)
DUR_UNITS = [("s", 1.0), ("min", 60.0), ("ms", 0.001), ("sec", 1.0), ("msec", 0.001), ("cs", 0.01), ("ds", 0.1), ("das", 10.0),
             ("h", 3600.0), ("hr", 3600.0), ("hour", 3600.0), ("ks", 1000.0), ("hs", 100.0), ("day", 86400.0), ("wk", 604800.0), ("week", 604800.0)]
DUR_FACTOR = dict(DUR_UNITS)


def _lit(rng, clock, v):
    """a program literal for the numeric value v (seconds for the duration clock, mixed display units)"""
    if clock == "duration":
        u, f = rng.choice(DUR_UNITS)
        if rng.random() < 0.5:
            return [v / f, u]
        return [float(v), "s"]
    if clock == "int":
        return int(v) if v == int(v) else float(v)
    return rng.choice([float(v), v]) if float(v) == int(v) and rng.random() < 0.2 else float(v)


def gen_program(rng, clock=None, n_events=None, with_bad=True, with_cancel=True, horizon=None, faults=False,
                warm=None, beyond=True, bigint=False, initial=True, start_at=None, fractional=False, prebuilt=True):
    clock = clock or rng.choice(["float", "int", "duration"])
    length = horizon or rng.choice([10, 20, 50])
    start = rng.choice([0, 0, 0, 5]) if clock != "duration" else 0
    if bigint and clock == "int" and rng.random() < 0.25:
        start = 2 ** 60 + rng.randint(0, 3)        # integer clocks far beyond 2**53 (e.g. nanosecond time stamps)
    if start_at is not None:
        start = start_at       # e.g. an epoch time: sub-second gaps are then below 1e-9 relative to the clock
    warmup = warm if warm is not None else rng.choice([0, 0, 2, 5, length // 2, length])
    n = n_events or rng.randint(5, 40)
    step = rng.choice([1, 1, 2, 0.5, 0.25]) if clock != "int" else rng.choice([1, 1, 2, 3])
    if fractional and clock == "int" and start < 2 ** 50 and rng.random() < 0.15:
        step = rng.choice([0.5, 0.25, 1.5])      # an int clock accepts any numeric event time: 2.5 lies between 2 and 3
    grid = [start + k * step for k in range(int((length + 6) / step))]
    hot = rng.sample(grid, min(len(grid), rng.randint(1, 4)))       # a few instants that attract exact ties
    handlers = {}
    init = []
    tags = []
    counter = [0]
    pct = rng.random() < 0.35
    wide_prio = rng.random() < 0.25      # priorities outside the 'typical' 1..10 are ints like any other

    def new_tag():
        counter[0] += 1
        # some tags carry characters that are special in format strings: error reports are built from them
        return f"e{counter[0]}" + ("%" if pct and counter[0] % 4 == 1 else "")

    def sched_action(cur, from_init):
        """one scheduling action issued at time `cur` (numeric); returns (action, child tag, child time|None)"""
        r = rng.random()
        prio = rng.choice([1, 3, 5, 5, 5, 7, 10, 0, -2] if wide_prio else [1, 3, 5, 5, 5, 7, 10])
        tag = new_tag()
        if r < 0.22:
            return ["now", prio, tag], tag, cur
        if r < 0.62:
            cands = [t for t in hot if t >= cur]
            if cands and rng.random() < 0.55:
                d = rng.choice(cands) - cur
            else:
                d = rng.choice([0, step, 2 * step, 3 * step, 5 * step, -0.0 if clock == "float" else 0])
            if not beyond and cur + d > start + length:
                d = 0
            return ["rel", _lit(rng, clock, d), prio, tag], tag, cur + d
        t = rng.choice([g for g in grid if g >= cur] or [cur])
        if rng.random() < 0.4:
            cands = [h for h in hot if h >= cur]
            if cands:
                t = rng.choice(cands)
        if not beyond and t > start + length:
            t = cur
        return [rng.choice(["abs", "abs", "ev", "abs", "ev", "pre"] if prebuilt else ["abs", "abs", "ev"]), _lit(rng, clock, t), prio, tag], tag, t

    frontier = []      # (tag, time) of events that exist and may get handlers
    for _ in range(rng.randint(1, 5)):
        a, tag, t = sched_action(start, True)
        init.append(a)
        frontier.append((tag, t))
        tags.append(tag)
    if with_bad and rng.random() < 0.5:
        init.insert(rng.randrange(len(init) + 1), [rng.choice(["bad_rel", "bad_abs"]), rng.choice(["neg", "nan", "none", "str", "past"])])
    budget = n - len(frontier)
    while budget > 0 and frontier:
        tag, t = frontier.pop(rng.randrange(len(frontier)))
        acts = handlers.setdefault(tag, [])
        for _ in range(rng.choice([0, 1, 1, 2, 3])):
            if budget <= 0:
                break
            a, child, ct = sched_action(t, False)
            acts.append(a)
            frontier.append((child, ct))
            tags.append(child)
            budget -= 1
        if with_cancel and tags and rng.random() < 0.35:
            acts.insert(rng.randrange(len(acts) + 1), ["cancel", rng.choice(tags + [tag])])
        if with_bad and rng.random() < 0.25:
            acts.insert(rng.randrange(len(acts) + 1), [rng.choice(["bad_rel", "bad_abs"]),
                                                       rng.choice(["neg", "negf", "nan", "none", "str", "past", "negtiny"])])
        if faults and rng.random() < faults:
            acts.insert(rng.randrange(len(acts) + 1), ["raise"])
    prog = {"clock": clock, "rep": {"start": _lit(rng, clock, start) if clock != "duration" else [float(start), "s"],
                                    "warmup": _lit(rng, clock, warmup), "length": _lit(rng, clock, length)},
            "init": init, "handlers": handlers}
    if initial and rng.random() < 0.3:
        # the other documented way to get first events on the list: a method registered once with add_initial_method,
        # executed in every initialize right after construct_model
        cut = rng.randrange(len(init))
        prog["init"], prog["initial"] = init[:cut], init[cut:]
    return prog


def add_stats(rng, prog, kinds=("counter", "tally", "wtally", "persistent"), watch=True, density=0.7, baseline=False, plain=False):
    """statistics created in construct_model + observation actions sprinkled over init and handlers"""
    specs = []
    for k, kind in enumerate(rng.sample(list(kinds), rng.randint(1, len(kinds)))):
        specs.append({"key": f"{kind}{k}", "kind": kind, "via": rng.choice(["register", "event"]), "watch": watch})
    for sp in specs:
        if sp["via"] == "event" and rng.random() < 0.4:
            sp["two_types"] = True
    if plain and rng.random() < 0.4:
        specs.append({"key": "plain%d" % len(specs), "kind": rng.choice(["plaincounter", "plaintally"]), "via": "register", "watch": False})
    prog["stats"] = specs
    if baseline:
        for sp in specs:
            if rng.random() < 0.35:
                sp["baseline"] = {"counter": [2], "tally": [1.5], "wtally": [1.0, 4.0], "persistent": [3.0]}[sp["kind"]]

    def obs():
        sp = rng.choice(specs)
        if sp["kind"] in ("counter", "plaincounter"):
            return ["obs", sp["key"], rng.randint(-3, 9)]
        if sp["kind"] == "wtally":
            return ["obs", sp["key"], rng.choice([0.0, 1.0, 2.5, rng.uniform(0, 5)]), rng.choice([1.0, 4.0, rng.uniform(-10, 10)])]
        return ["obs", sp["key"], rng.choice([1.0, 2.0, rng.uniform(-10, 10), float(rng.randint(0, 5))])]
    for tag in list(prog["handlers"].keys()):
        acts = prog["handlers"][tag]
        for _ in range(rng.choice([0, 1, 1, 2])):
            if rng.random() < density:
                acts.insert(rng.randrange(len(acts) + 1), obs())
    # leaf events (no handler entry yet) observe as well
    for acts in list(prog["handlers"].values()) + [prog["init"], prog.get("initial", [])]:
        for a in acts:
            if a[0] in ("rel", "abs", "ev", "pre", "now"):
                child = a[3] if a[0] != "now" else a[2]
                if child not in prog["handlers"] and rng.random() < density:
                    prog["handlers"][child] = [obs() for _ in range(rng.randint(1, 2))]
    if rng.random() < 0.3:
        prog["init"].append(obs())
    return prog


def add_streams(rng, prog, n_draw=6):
    """seeded streams (re-created in construct_model) and handlers whose next delay is drawn from a distribution"""
    prog["streams"] = [{"name": "s1", "seed": rng.choice([0, 0, rng.randint(1, 10 ** 6)])}, {"name": "s2", "seed": rng.randint(-5, 10 ** 6)}]
    if rng.random() < 0.5:
        prog["streams"][1] = {"name": "s2", "via": "info"}      # the 'default' stream of an argument-less StreamInformation()
    dists = [["DistExponential", [rng.choice([0.5, 1.0, 2.0])]], ["DistUniform", [0.0, rng.choice([1.0, 3.0])]],
             ["DistTriangular", [0.0, 1.0, 2.0]], ["DistGamma", [rng.choice([0.5, 2.0]), 1.0]], ["DistNormalTrunc", [1.0, 1.0, 0.0, 3.0]],
             ["DistLogNormal", [0.0, 0.5]], ["DistLogNormal", [0.0, 0.5]]]      # (keeps a spare normal deviate between draws)
    tags = list(prog["handlers"].keys())
    n = 0
    for tag in tags:
        if n >= n_draw:
            break
        if rng.random() < 0.5:
            d = rng.choice(dists)
            n += 1
            child = f"d{n}"
            prog["handlers"][tag].append(["drawrel", rng.choice(["s1", "s2"]), d[0], d[1], rng.choice([1, 5, 5, 9]), child])
            # a short self-feeding chain
            prog["handlers"][child] = [["drawrel", rng.choice(["s1", "s2"]), d[0], d[1], 5, child + "x"]]
            prog["handlers"][child + "x"] = [["drawrel", "s1", "DistExponential", [1.0], 5, child + "y"]]
    return prog


def add_fanout(rng, prog):
    """several listeners per event type whose scripts draw from shared streams and schedule events"""
    if "streams" not in prog:
        prog["streams"] = [{"name": "s1", "seed": rng.randint(1, 10 ** 6)}, {"name": "s2", "seed": rng.randint(1, 10 ** 6)}]
    fan = {}
    for tname in ["A", "B"][:rng.randint(1, 2)]:
        ls = []
        for k in range(rng.randint(2, 5)):
            script = []
            for _ in range(rng.randint(1, 2)):
                r = rng.random()
                if r < 0.5:
                    script.append(["draw", rng.choice(["s1", "s2"])])
                else:
                    script.append(["schedrel", rng.choice(["s1", "s2"]), rng.choice([1, 5, 5, 9])])
            ls.append({"name": f"L{tname}{k}", "script": script})
        if len(ls) >= 3 and rng.random() < 0.7:
            # a listener that is not the last one unsubscribes itself after a few notifications
            ls[rng.randrange(len(ls) - 1)]["script"].append(["unsub", rng.randint(1, 3)])
        if len(ls) >= 2 and rng.random() < 0.5:
            # a listener that is not the last one subscribes a second time (ignored by the documentation: its place is kept)
            ls[rng.randrange(len(ls) - 1)]["script"].insert(0, ["resub", rng.randint(1, 3)])
        fan[tname] = ls
    prog["fanout"] = fan
    n = 0
    for tag, acts in prog["handlers"].items():
        if rng.random() < 0.5 and n < 8:
            acts.insert(rng.randrange(len(acts) + 1), ["fanfire", rng.choice(list(fan)), rng.choice(["fire", "fire_timed", "fire_event", "fire_timed_event"])])
            n += 1
    if n == 0 and prog["handlers"]:
        next(iter(prog["handlers"].values())).append(["fanfire", next(iter(fan))])
    return prog


def add_oneshot_simlisteners(rng, prog):
    """listeners on the simulator's warm-up notification, subscribed in construct_model BEFORE the statistics are
    created, that unsubscribe themselves inside the notification (no draws: usable without streams)"""
    prog["simlisteners"] = prog.get("simlisteners", []) + [{"name": f"OS{k}", "type": "WARMUP_EVENT", "script": [["unsub", 1]]}
                                                          for k in range(rng.randint(1, 2))]
    return prog


def add_simlisteners(rng, prog, types=("WARMUP_EVENT", "TIME_CHANGED_EVENT")):
    """listeners the model subscribes to the simulator's own notifications in construct_model; they draw from the
    model's streams (and the warm-up / start ones may schedule events)"""
    if "streams" not in prog:
        prog["streams"] = [{"name": "s1", "seed": rng.randint(1, 10 ** 6)}, {"name": "s2", "seed": rng.randint(1, 10 ** 6)}]
    ls = []
    for k in range(rng.randint(1, 3)):
        t = rng.choice(list(types))
        script = [["draw", rng.choice(["s1", "s2"])]]
        if t != "TIME_CHANGED_EVENT" and rng.random() < 0.5:
            script.append(["schedrel", rng.choice(["s1", "s2"]), rng.choice([1, 5, 9])])
        ls.append({"name": f"SL{k}", "type": t, "script": script})
    if "TIME_CHANGED_EVENT" not in types and rng.random() < 0.6:
        # a listener that only looks at the clock whenever the time changes (no draws: how many TIME_CHANGED
        # notifications a run produces depends on its segmentation into bounded chunks by design)
        ls.append({"name": "TC", "type": "TIME_CHANGED_EVENT", "script": [["clock"]]})
    prog["simlisteners"] = ls
    return prog
