"""child interpreter for C07: runs the given programs under one configuration and prints a digest per program"""
import hashlib
import json
import os
import sys
import time


def observe(h):
    from vlib.simharness import stat_getters
    return {"trace": [(t, float(c).hex()) for t, c in h.trace()],
            # the start/stop notifications a pause itself causes are not part of the run's outcome
            "notifications": [(n[0], None if n[1] is None else float(n[1]).hex()) for n in h.nlog
                              if n[0] not in ("STARTING_EVENT", "START_EVENT", "STOPPING_EVENT", "STOP_EVENT")],
            "notifications_without_time_changed": [(n[0], None if n[1] is None else float(n[1]).hex()) for n in h.nlog
                                                   if n[0] in ("START_REPLICATION_EVENT", "WARMUP_EVENT", "END_REPLICATION_EVENT")],
            "timeline": [r for r in h.timeline if r[0] in ("l", "d", "u", "sl")],
            # (step() announces the time before every event, a run only when it changes: the first view per distinct time)
            "time_changed_views": _first_per_time([r for r in h.timeline if r[0] == "sc"]),
            "stats": {k: stat_getters(st) for k, st in sorted(h.stats.items())},
            "clock": float(h.sim.simulator_time).hex(), "state": h.sim.run_state.name,
            "initial_methods_run_by_the_last_initialize": h.initial_methods_run - (1 if h.prog.get("initial") else 0)}


def _first_per_time(recs):
    out, seen = [], set()
    for r in recs:
        if (r[1], r[2]) not in seen:
            seen.add((r[1], r[2]))
            out.append(r)
    return out


_KEEP = []


def prior_activity(kind):
    if kind != "none":
        # earlier, unrelated use of the library's convenience objects in this process
        from pydsol.core.streams import StreamInformation
        si = StreamInformation()
        for _ in range(7):
            si.get_stream("default").next_float()
    if kind == "events":
        from pydsol.core.simevent import SimEvent

        class T:
            def m(self):
                pass
        t = T()
        keep = [SimEvent(float(i), t, "m") for i in range(3000)]
        # free a pseudo-random half so that later allocations fill holes: object addresses are then no longer
        # increasing with creation order (anything ordered by id()/address would show)
        import random
        r = random.Random(len(keep))
        r.shuffle(keep)
        del keep[:1500]
        _KEEP.append(keep)
        return len(keep)
    if kind == "objects":
        junk = [object() for _ in range(10000)] + [{"k": i} for i in range(3000)]
        from vlib.simharness import Harness
        h = Harness({"clock": "float", "rep": {"start": 0.0, "warmup": 0.0, "length": 5.0},
                     "init": [["rel", 1.0, 5, "x1"], ["ev", 2.0, 5, "x2"], ["ev", 2.0, 5, "x4"]],
                     "handlers": {"x1": [["rel", 1.5, 5, "x3"], ["ev", 3.0, 5, "x5"]]}, "initial": [["now", 5, "x9"]]}, "unrelated")
        h.cmd("initialize")
        # the unrelated model has statistics of every kind that listen to this process's 'foreign' event type
        from pydsol.core import statistics as S
        from pydsol.core.pubsub import EventProducer
        from vlib.simharness import foreign_type
        up = EventProducer()
        for n, cls in enumerate((S.SimCounter, S.SimTally, S.SimWeightedTally, S.SimPersistent)):
            cls(f"u{n}", "unrelated", h.sim).listen_to(up, foreign_type())
        cls = S.SimTally("u9", "unrelated", h.sim, producer=up, event_type=foreign_type())
        h.cmd("start")
        h.wait_quiescent(20)
        h.cleanup()
        return len(junk)
    return 0


def main():
    cfg = json.load(open(sys.argv[1]))
    sys.stdout = open(os.devnull, "w")
    from vlib.simharness import Harness, cleanup_all
    import random
    prior_activity(cfg["prior"])
    out = []
    for pi, prog in enumerate(cfg["programs"]):
        h = Harness(prog, f"p{pi}")
        if cfg["sleeps"]:
            r = random.Random(pi)
            h.sleeper = lambda r=r: time.sleep(0.0003) if r.random() < 0.15 else None
        res = {"ok": True}
        try:
            if cfg.get("abandoned"):
                # the simulator served a replication before that was paused half-way, abandoned and cleaned up (cleanup(), then
                # initialize(), as cleanup's documentation describes): nothing of it is left
                if h.cmd("initialize") == "ok":
                    h.start_and_pause_after(cfg["abandoned"])
                    h.wait_quiescent(30)
                    h.cmd("cleanup")
                h.reset_logs()
            if h.experiment is not None:
                # an experiment: replication r of the model is the same run whether or not other replications were run
                # before it on the same simulator, model and streams
                for r_before in cfg.get("earlier_reps", []):
                    h.update_seeds(r_before)
                    if h.cmd("initialize") == "ok" and h.cmd("start") == "ok":
                        h.wait_quiescent(30)
                h.update_seeds(prog["experiment"]["rep"])
                h.reset_logs()
            if h.cmd("initialize") != "ok":
                res = {"ok": False, "why": "initialize"}
            else:
                if cfg.get("chunks"):
                    from vlib.refdevs import tnum
                    start = tnum(prog, prog["rep"]["start"])
                    length = tnum(prog, prog["rep"]["length"])
                    for frac in cfg["chunks"]:
                        if h.sim.run_state.name == "ENDED":
                            break
                        t = start + frac * length
                        lit = [float(t), "s"] if prog["clock"] == "duration" else (int(t) if prog["clock"] == "int" else float(t))
                        h.cmd("run_up_to", lit)
                        h.wait_quiescent(20)
                for _ in range(cfg.get("steps", 0)):
                    if h.sim.run_state.name == "ENDED":
                        break
                    h.cmd("step")
                    h.wait_quiescent(20)
                for k in cfg.get("lstops", []):
                    # a pause requested by a TIME_CHANGED subscriber (stop() on the run thread), then resumed
                    if h.sim.run_state.name == "ENDED":
                        break
                    h.stop_from_time_changed(k)
                    h.cmd("start")
                    h.wait_quiescent(30)
                if cfg.get("lstops") and getattr(h, "_lstop", None) is not None:
                    h._lstop.left = 0
                for k in cfg["pauses"]:
                    if h.sim.run_state.name == "ENDED":
                        break
                    h.start_and_pause_after(k)
                    h.wait_quiescent(20)
                if h.sim.run_state.name != "ENDED":
                    o = h.cmd("start")
                    if o != "ok":
                        res = {"ok": False, "why": "start:" + o}
                if res["ok"] and not h.wait_quiescent(30):
                    res = {"ok": False, "why": "no quiescence"}
            if res["ok"]:
                ob = observe(h)
                canon = json.dumps(ob, sort_keys=True)
                # listeners of one event type must have been notified in subscription order for every fired event
                order_ok = True
                fan = prog.get("fanout", {})
                deliveries = {}
                subscribed = {t: [sp["name"] for sp in fan[t]] for t in fan}
                expected = {}
                for r in h.timeline:
                    if r[0] == "l":
                        key = (r[1], r[3])
                        if key not in deliveries:
                            expected[key] = list(subscribed[r[1]])     # the subscribers at the moment of firing
                        deliveries.setdefault(key, []).append(r[2])
                    elif r[0] == "u":
                        subscribed[r[1]] = [n for n in subscribed[r[1]] if n != r[2]]
                for key, names in deliveries.items():
                    if names != expected[key]:
                        order_ok = False
                res = {"ok": True, "digest": hashlib.sha256(canon.encode()).hexdigest(), "order_ok": order_ok,
                       "n_events": len(ob["trace"]), "n_deliveries": sum(len(v) for v in deliveries.values()),
                       "n_draws": sum(1 for r in h.timeline if r[0] == "d"), "parts": {k: hashlib.sha256(json.dumps(v, sort_keys=True).encode()).hexdigest()[:12] for k, v in ob.items()},
                       "views": [[r[2], r[3]] for r in ob["time_changed_views"]][:2000],
                       "head": {"trace": ob["trace"][:40], "timeline": ob["timeline"][:40]}}
        finally:
            h.cleanup()
        out.append(res)
    cleanup_all()
    sys.__stdout__.write(json.dumps(out))
    sys.__stdout__.flush()
    os._exit(0)


if __name__ == "__main__":
    main()
