"""./check <ID> <quick|thorough> [--replay PATH]"""
import os
import sys
from vlib import runner


def main(argv):
    if len(argv) < 1 or argv[0] not in runner.CHECKS:
        print("usage: check <C01..C18> <quick|thorough> [--replay PATH]")
        return 64
    pid = argv[0]
    if "--replay" in argv:
        return runner.run_replay(pid, argv[argv.index("--replay") + 1])
    tier = argv[1] if len(argv) > 1 else os.environ.get("VERIF_TIER", "quick")
    if tier not in ("quick", "thorough"):
        print("tier must be quick or thorough")
        return 64
    seed = int(os.environ.get("VERIF_SEED", "0") or 0)
    return runner.run_check(pid, tier, seed)


if __name__ == "__main__":
    sys.stdout.reconfigure(line_buffering=True)
    sys.exit(main(sys.argv[1:]))
