"""
Instrumented StreamInterface implementations (monitor M6).
CountingStream delegates to a real seeded MersenneTwister, counts every call and can be frozen: any
consumption after freeze() is recorded.  SplicedStream additionally replaces the uniform at chosen call
positions by chosen extreme values - never a constant script (that would spin rejection samplers for ever).
"""
from pydsol.core.streams import StreamInterface, MersenneTwister

EXTREMES = {"zero": 0.0, "subnormal": 5e-324, "min_mt": 2.0 ** -53, "tiny": 1e-300, "half": 0.5,
            "one_minus_ulp": 1.0 - 2.0 ** -53, "quarter": 0.25}


class StreamFault(RuntimeError):
    pass


class CountingStream(StreamInterface):
    def __init__(self, seed):
        self._mt = MersenneTwister(seed)
        self.calls = 0
        self.frozen = False
        self.after_freeze = 0
        self.splice = {}          # call position -> value (floats only)
        self.spliced_hits = 0
        self.fail_at = None       # call position at which the next call raises (once)
        self.failed = 0

    def _tick(self):
        if self.fail_at is not None and self.calls >= self.fail_at:
            # an injected stream fault (e.g. an exhausted recorded stream): raised once, before anything is delivered
            self.fail_at = None
            self.failed += 1
            raise StreamFault("injected stream fault")
        if self.frozen:
            self.after_freeze += 1
        self.calls += 1

    def next_bool(self):
        self._tick()
        return self._mt.next_bool()

    def next_float(self):
        pos = self.calls
        self._tick()
        v = self._mt.next_float()
        if pos in self.splice:
            self.spliced_hits += 1
            return self.splice[pos]
        return v

    def next_int(self, low, high, /):
        # (a user-written stream: its parameter names are its own, the library calls it by position)
        self._tick()
        return self._mt.next_int(low, high)

    def seed(self):
        return self._mt.seed()

    def original_seed(self):
        return self._mt.original_seed()

    def set_seed(self, value, /):
        self._mt.set_seed(value)

    def reset(self):
        self._mt.reset()

    def save_state(self):
        return self._mt.save_state()

    def restore_state(self, saved, /):
        self._mt.restore_state(saved)

    def freeze(self):
        self.frozen = True
