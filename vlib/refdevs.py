"""
Reference DEVS interpreter (the oracle of C02-C07, C11): ~200 lines of sequential Python, no threads.
Executes a *model program* (see vlib/simharness.py for the real-simulator side) with the semantics the property
statements word: pending set ordered by (time, -priority, scheduling order); start / run_up_to /
run_up_to_including / step; fault strategies; warm-up event created by initialize after the model's own events
with the maximum priority.
"""
import bisect
import math

WARMUP = "__warmup__"


def tnum(prog, x):
    """numeric (SI) value of a program time/delay literal, with the same arithmetic the library performs"""
    if isinstance(x, list):
        from vlib.proggen import DUR_FACTOR
        if x[1] in DUR_FACTOR:
            return float(x[0]) * DUR_FACTOR[x[1]]        # (the same product the library forms, with this oracle's own factor)
        from pydsol.core.units import Duration
        return float(Duration(x[0], x[1]))
    if prog["clock"] == "duration":
        return float(x)
    return x


def is_bad_number(v):
    return not isinstance(v, (int, float)) or isinstance(v, bool) or (isinstance(v, float) and math.isnan(v))


BAD_VALUES = {"neg": -1, "negf": -0.5, "nan": math.nan, "none": None, "str": "x", "past": "past", "negtiny": -1e-300}


class _SchedLog(list):
    """list of outcomes that also remembers which (parent tag, action index) produced each"""

    def __init__(self):
        super().__init__()
        self.by_key = {}
        self.key = None

    def append(self, outcome):
        super().append(outcome)
        self.by_key[self.key] = outcome


def pre_tags(prog):
    """tags of the events the model builds before initialize, in the order it builds them"""
    out = []
    for acts in [prog.get("init", []), prog.get("initial", [])] + [prog["handlers"][k] for k in prog.get("handlers", {})]:
        for a in acts:
            if a and a[0] == "pre" and a[3] not in out:
                out.append(a[3])
    return out


class Ref:
    def __init__(self, prog):
        self.p = prog
        self.start = tnum(prog, prog["rep"]["start"])
        self.warm = self.start + tnum(prog, prog["rep"]["warmup"])
        self.end = self.start + tnum(prog, prog["rep"]["length"])
        self.strategy = prog.get("strategy", "pause")        # log | warn | pause
        self.state = "NOT_INITIALIZED"

    # ------------------------------------------------------------------ life cycle
    def initialize(self):
        self.clock = self.start
        self.pending = []
        self.seq = 0
        self.trace = []             # (tag, time, prio)
        self.sched = _SchedLog()    # outcome of every scheduling request: "ok" | "refused" (list + by (parent, index))
        self.obs = []               # statistics observations (C11): (time, phase, stat, payload)
        self.where = {}             # tag -> pending entry | "done" | "cancelled"
        self.warmed = False
        self.state = "INITIALIZED"
        self.faults = 0
        self._actions(self.p.get("init", []), None)
        self._actions(self.p.get("initial", []), "@initial")     # initial methods: after construct_model, before the warm-up is scheduled
        self._push(self.warm, 10, WARMUP)

    def _push(self, time, prio, tag, seq=None):
        e = (time, -prio, self.seq if seq is None else seq, tag)
        self.seq += 1 if seq is None else 0
        bisect.insort(self.pending, e)
        self.where[tag] = e

    def _actions(self, actions, parent):
        """returns True when a raise action was hit (actions after it are not executed)"""
        for i, a in enumerate(actions):
            self.sched.key = (parent, i)
            k = a[0]
            if k == "rel":
                d = tnum(self.p, a[1])
                if d < 0 or not (self.clock + d >= self.clock):
                    self.sched.append("refused")       # negative delay (generators may produce one by rounding)
                else:
                    self._push(self.clock + d, a[2], a[3])
                    self.sched.append("ok")
            elif k == "pre":
                # an event object the model built before initialize (its constructor): created before every other event, so
                # it comes first in a tie on time and priority
                t = tnum(self.p, a[1])
                if not (t >= self.clock):
                    self.sched.append("refused")
                else:
                    self._push(t, a[2], a[3], seq=-10 ** 6 + pre_tags(self.p).index(a[3]))
                    self.sched.append("ok")
            elif k in ("abs", "ev"):
                t = tnum(self.p, a[1])
                if not (t >= self.clock):
                    self.sched.append("refused")       # in the past
                else:
                    self._push(t, a[2], a[3])
                    self.sched.append("ok")
            elif k == "now":
                self._push(self.clock, a[1], a[2])
                self.sched.append("ok")
            elif k in ("bad_rel", "bad_abs"):
                self.sched.append("refused")
            elif k == "cancel":
                e = self.where.get(a[1])
                if isinstance(e, tuple):
                    self.pending.remove(e)
                    self.where[a[1]] = "cancelled"
            elif k == "raise":
                return True
            elif k == "obs":
                self.obs.append((self.clock, self.warmed, a[1], a[2:]))
            elif k == "strategy":
                self.strategy = a[1]        # the error strategy may be changed while the simulation runs
            elif k in ("gate", "noop", "cmd", "fire", "draw", "badstrategy", "rebound", "stopfail", "refused_inside", "endrep"):     # a refused strategy change changes nothing
                pass
            else:
                raise ValueError(f"reference interpreter: unknown action {a}")
        return False

    # ------------------------------------------------------------------ execution
    def _exec_next(self):
        e = self.pending.pop(0)
        t, negp, _, tag = e
        self.clock = t
        self.where[tag] = "done"
        if tag == WARMUP:
            self.warmed = True
            self.trace.append((WARMUP, t, 10))
            return tag, False
        self.trace.append((tag, t, -negp))
        raised = self._actions(self.p["handlers"].get(tag, []), tag)
        if raised:
            self.faults += 1
        return tag, raised

    def can_start(self):
        return self.state in ("INITIALIZED", "STOPPED") and self.clock <= self.end

    def run(self, bound=None, including=True, stop_after=None):
        """one run segment; returns the list of trace entries executed in it.
        bound None = plain start (replication end, inclusive); stop_after = number of events after which an
        external stop() takes effect (pause at a gate)"""
        first = len(self.trace)
        b = self.end if bound is None else bound
        eff = min(b, self.end)
        incl = including if b <= self.end else True     # a bound beyond the end behaves like the end itself
        n = 0
        while True:
            if not self.pending:
                self.clock = max(self.clock, eff)
                break
            t = self.pending[0][0]
            if t > eff or (t == eff and not incl):
                self.clock = max(self.clock, eff)
                break
            tag, raised = self._exec_next()
            if tag != WARMUP:
                n += 1          # an external stop lands in the handler of the n-th *model* event
            if raised and self.strategy == "pause":
                self.state = "STOPPED"
                return self.trace[first:]
            if stop_after is not None and n >= stop_after:
                self.state = "STOPPED"
                return self.trace[first:]
        self.state = "ENDED" if b >= self.end else "STOPPED"
        if self.state == "ENDED":
            self.clock = self.end
        return self.trace[first:]

    def step(self):
        """executes the next pending event if it is not later than the replication end"""
        first = len(self.trace)
        if self.pending and self.pending[0][0] <= self.end:
            self._exec_next()
        self.state = "STOPPED"
        return self.trace[first:]

    def pending_tags(self):
        return [e[3] for e in self.pending]
