"""child-interpreter entry: one shard, or one replayed case"""
import sys
from vlib import runner

if __name__ == "__main__":
    if sys.argv[1] == "--replay":
        runner.replay_child(sys.argv[2:])
    else:
        runner.worker_main(sys.argv[1:])
