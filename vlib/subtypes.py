"""legal numbers that are not plain int / float objects (bool, IntEnum members, instances of int and float subclasses).
Cases are JSON: such a value is stored as a marker {"sub": kind, "v": plain value} and built by materialize()."""
import enum as _enum


class MyInt(int):
    pass


class MyFloat(float):
    pass


Level = _enum.IntEnum("Level", {"LOW": 1, "MID": 2, "HIGH": 3})
Level.__module__ = __name__
_SUBS = {"intenum": Level, "intsub": MyInt, "floatsub": MyFloat, "bool": bool}


def materialize(v):
    return _SUBS[v["sub"]](v["v"]) if isinstance(v, dict) and "sub" in v else v


def int_marker(v, salt=0):
    """a marker for the int v (bool for 0/1, an IntEnum member for 1..3, an int-subclass instance otherwise), chosen by salt"""
    if v in (0, 1) and salt % 2 == 0:
        return {"sub": "bool", "v": v}
    if 1 <= v <= 3:
        return {"sub": "intenum", "v": v}
    return {"sub": "intsub", "v": v}
