"""
Protocol oracle for C04: the documented run-state / replication-state rules as an executable table on top of
the reference DEVS interpreter, and the notification-stream automaton (monitor M3).
Abstract quiescent states: NI (not initialised), II (initialised), SS (stopped, replication started), EE (ended).
"""
from vlib.simharness import num
from vlib.refdevs import Ref, WARMUP, tnum

STATES = {"NI": ("NOT_INITIALIZED", "NOT_INITIALIZED"), "II": ("INITIALIZED", "INITIALIZED"),
          "SS": ("STOPPED", "STARTED"), "EE": ("ENDED", "ENDED")}
COMMANDS = ["initialize", "start", "step", "stop", "run_up_to", "run_up_to_including", "end_replication", "cleanup"]


class ProtoRef:
    def __init__(self, prog, mid):
        self.prog = prog
        self.ref = Ref(prog)
        self.state = "NI"
        self.mid = mid
        self.rep_started = False
        self.warm_done = False

    def snapshot(self):
        r = self.ref
        if self.state == "NI":
            return {"state": "NI"}
        return {"state": self.state, "clock": num(r.clock), "pending": len(r.pending)}

    def apply(self, cmd):
        """returns the expectation for `cmd` issued at quiescence:
        {"outcome": ok|refused|either, "seg": [(tag, time)], "notes": [names without TIME_CHANGED] | None, "state": ...}"""
        r = self.ref
        st = self.state
        if cmd == "initialize":
            r.initialize()
            self.state = "II"
            self.rep_started = False
            self.warm_done = False
            return {"outcome": "ok", "seg": [], "notes": [], "state": "II"}
        if cmd == "cleanup":
            self.state = "NI"
            return {"outcome": "ok", "seg": [], "notes": [], "state": "NI"}
        if cmd == "stop":
            return {"outcome": "refused", "seg": [], "notes": [], "state": st}
        if cmd == "end_replication":
            if st in ("NI", "EE"):
                return {"outcome": "refused", "seg": [], "notes": [], "state": st}
            r.pending = []
            r.clock = r.end
            r.state = "ENDED"
            self.state = "EE"
            return {"outcome": "ok", "seg": [], "notes": ["END_REPLICATION_EVENT"], "state": "EE"}
        # start / step / bounded runs
        if st not in ("II", "SS") or not r.can_start():
            return {"outcome": "refused", "seg": [], "notes": [], "state": st}
        notes = []
        if not self.rep_started:
            notes.append("START_REPLICATION_EVENT")
        if cmd == "step":
            seg = r.step()
            notes.append("START_EVENT")
        else:
            if cmd == "start":
                seg = r.run()
            else:
                b = tnum(self.prog, self.mid)
                if b < r.clock:
                    # bound before the clock: refusal or an empty segment are both acceptable readings
                    return {"outcome": "either", "seg": [], "notes": None, "state": st, "state_if_ok": "SS"}
                seg = r.run(bound=b, including=(cmd == "run_up_to_including"))
            notes += ["STARTING_EVENT", "START_EVENT"]
        if any(t == WARMUP for t, _, _ in seg):
            notes.append("WARMUP_EVENT")
        notes.append("STOP_EVENT")
        self.rep_started = True
        if r.state == "ENDED":
            notes.append("END_REPLICATION_EVENT")
            self.state = "EE"
        else:
            self.state = "SS"
        return {"outcome": "ok", "seg": [(t, c) for t, c, _ in seg if t != WARMUP], "notes": notes, "state": self.state,
                "full_seg": [(t, c) for t, c, _ in seg]}


class StreamAutomaton:
    """online checker of one replication's notification stream (re-created at every initialize)"""

    def __init__(self, warm, end):
        self.warm, self.end = warm, end
        self.started_rep = False
        self.running = False
        self.ended = False
        self.warmups = 0
        self.last_tc = None
        self.pending_tc = None
        self.n = 0
        self.starting_pending = False
        self.cur = None           # the time subscribers were last told: by START (the clock the run starts from) or TIME_CHANGED

    def feed(self, rec):
        """rec = ('n', name, ts) | ('h', tag, time, prio); returns None or a violation string"""
        self.n += 1
        if rec[0] == "h":
            if self.ended:
                return "event-executed-after-END_REPLICATION"
            if not self.running:
                return "event-executed-outside-START/STOP"
            if self.pending_tc is not None and rec[2] != self.pending_tc:
                return "TIME_CHANGED-differs-from-the-time-of-the-event-about-to-run"
            self.pending_tc = None
            if self.cur is not None and rec[2] != self.cur:
                return "event-ran-at-a-time-the-subscribers-were-not-told"
            return None
        if rec[0] != "n":
            return None
        name, ts = rec[1], rec[2]
        if self.ended:
            return f"{name}-after-END_REPLICATION"
        if name == "START_REPLICATION_EVENT":
            if self.started_rep:
                return "START_REPLICATION-twice"
            self.started_rep = True
        elif name == "STARTING_EVENT":
            if self.running:
                return "STARTING-while-running"
            self.starting_pending = True
        elif name == "START_EVENT":
            if not self.started_rep:
                return "START-before-START_REPLICATION"
            if self.running:
                return "START-twice-without-STOP"
            self.running = True
            self.starting_pending = False
            self.cur = ts
        elif name == "STOP_EVENT":
            if not self.running:
                return "STOP-without-START"
            self.running = False
            self.pending_tc = None
        elif name == "STOPPING_EVENT":
            # stop() is refused (and notifies nobody) unless the simulator is starting or running
            if not (self.running or self.starting_pending):
                return "STOPPING-while-not-starting-or-running"
        elif name == "TIME_CHANGED_EVENT":
            if not self.started_rep or not self.running:
                return "TIME_CHANGED-outside-START/STOP"
            if self.last_tc is not None and ts < self.last_tc:
                return "TIME_CHANGED-decreasing"
            self.last_tc = ts
            self.pending_tc = ts
            self.cur = ts
        elif name == "WARMUP_EVENT":
            self.warmups += 1
            if self.warmups > 1:
                return "WARMUP-twice"
            if ts != self.warm:
                return "WARMUP-not-at-the-warmup-time"
            if not self.running:
                return "WARMUP-outside-START/STOP"
            if self.pending_tc is not None and ts != self.pending_tc:
                return "TIME_CHANGED-differs-from-the-time-of-the-event-about-to-run"
            self.pending_tc = None
            if self.cur is not None and ts != self.cur:
                return "event-ran-at-a-time-the-subscribers-were-not-told"
        elif name == "END_REPLICATION_EVENT":
            if self.running:
                return "END_REPLICATION-before-STOP"
            self.ended = True
        return None
