"""
Shared plumbing: paths, seed derivation, canonical hashing, tree fingerprint, dependency bootstrap.
"""
import hashlib
import json
import os
import random
import subprocess
import sys

ROOT = os.environ.get("VERIF_ROOT") or os.path.dirname(os.path.dirname(os.path.abspath(__file__)))
REPO = os.environ.get("VERIF_REPO", "/repo")
SRC = os.path.join(REPO, "src")
PY = "/venv/bin/python"
GUARD = "AVERBRAECK_PYDSOL_CORE_VERIF"


def deps_dir():
    d = os.environ.get("VERIF_DEPS") or os.path.join(ROOT, ".deps")
    return d


def ensure_deps():
    """(re)install the helper wheels when a restore brought back only committed files"""
    d = deps_dir()
    if os.path.exists(os.path.join(d, ".ok")):
        return d
    import fcntl
    lock = os.path.join(ROOT, ".deps.lock")
    with open(lock, "w") as fh:
        fcntl.flock(fh, fcntl.LOCK_EX)
        if not os.path.exists(os.path.join(d, ".ok")):
            subprocess.run(["/bin/bash", os.path.join(ROOT, "setup.sh")], check=True,
                           stdout=subprocess.DEVNULL)
    return d


def child_env(extra=None):
    env = dict(os.environ)
    env["PYTHONDONTWRITEBYTECODE"] = "1"
    env["PYTHONPATH"] = os.pathsep.join([ROOT, deps_dir(), SRC])
    env["VERIF_ROOT"] = ROOT
    env["VERIF_REPO"] = REPO
    env[GUARD] = "1"
    env.setdefault("PYTHONHASHSEED", "0")
    if extra:
        env.update(extra)
    return env


def derive(*parts) -> int:
    """stable 64-bit seed from arbitrary parts (never uses hash())"""
    h = hashlib.sha256(("|".join(str(p) for p in parts)).encode()).digest()
    return int.from_bytes(h[:8], "big")


def rng_for(*parts) -> random.Random:
    return random.Random(derive(*parts))


def canon(obj) -> str:
    return json.dumps(obj, sort_keys=True, default=_default, separators=(",", ":"))


def _default(o):
    if isinstance(o, float):
        return o.hex()
    if isinstance(o, (set, frozenset)):
        return sorted(o)
    if isinstance(o, tuple):
        return list(o)
    return repr(o)


def chash(obj) -> str:
    return hashlib.sha256(canon(obj).encode()).hexdigest()[:16]


SOURCE_FILES = ["__init__.py", "distributions.py", "eventlist.py", "experiment.py", "interfaces.py",
                "model.py", "parameters.py", "pubsub.py", "simevent.py", "simulator.py", "statistics.py",
                "streams.py", "units.py", "utils.py"]


def tree_fingerprint() -> str:
    h = hashlib.sha256()
    for f in SOURCE_FILES:
        p = os.path.join(SRC, "pydsol", "core", f)
        try:
            with open(p, "rb") as fh:
                h.update(f.encode() + b"\0" + fh.read())
        except OSError:
            h.update(f.encode() + b"\0MISSING")
    return h.hexdigest()[:20]


def assert_tree():
    """the imported pydsol must be the working tree under test"""
    import pydsol.core
    f = os.path.realpath(pydsol.core.__file__)
    want = os.path.realpath(SRC)
    if not f.startswith(want + os.sep):
        raise RuntimeError(f"pydsol imported from {f}, expected under {want}")


def fx(v):
    """hex form of floats (NaN-aware, sign-of-zero aware) for bit-exact comparisons / digests"""
    if isinstance(v, bool) or v is None:
        return v
    if isinstance(v, float):
        if v != v:
            return "nan"
        return float(v).hex()
    if isinstance(v, int):
        return v
    if isinstance(v, (tuple, list)):
        return [fx(x) for x in v]
    return repr(v)


def same(a, b) -> bool:
    """bit-exact equality with NaN == NaN"""
    return fx(a) == fx(b)


def short(obj, n=1500):
    s = canon(obj)
    if len(s) <= n:
        return json.loads(s)
    return {"truncated": s[:n]}


import contextlib as _contextlib

PYDSOL_LOGGERS = ["utils", "distributions", "eventlist", "experiment", "interfaces", "model", "parameters", "pubsub", "simevent",
                  "simulator", "statistics", "streams", "units"]


@_contextlib.contextmanager
def library_loggers_at(level):
    """the library's module loggers (named after its modules) switched to `level` - what a user does to see its debug output -
    while their handlers are silenced, so nothing is printed: only logger.isEnabledFor() changes"""
    import logging
    saved = []
    for name in PYDSOL_LOGGERS:
        lg = logging.getLogger(name)
        saved.append((lg, lg.level, [(h, h.level) for h in lg.handlers]))
        lg.setLevel(level)
        for h in lg.handlers:
            h.setLevel(logging.CRITICAL + 10)
    try:
        yield
    finally:
        for lg, lv, hs in saved:
            lg.setLevel(lv)
            for h, hl in hs:
                h.setLevel(hl)
