"""child interpreter for C13: applies the stream updaters to the given configurations and prints what it saw"""
import json
import sys


def draws(s):
    return [s.next_float().hex(), s.next_int(0, 10 ** 6), s.next_float().hex()]


def apply(cfg, order, history=False, reuse=False, late=False, via_info=False, custom=False, ddict=False, refused=False, reconf=False):
    from pydsol.core.streams import MersenneTwister, SimpleStreamUpdater, StreamSeedUpdater
    streams = {}
    for name in order:
        s = MersenneTwister(cfg["streams"][name])
        if history == "used":
            for _ in range(3):          # drawn from, seed untouched (equals the original seed)
                s.next_float()
        elif history == "shipped":
            # the stream served an earlier replication (seeded by an updater), was then copied (pickle round trip / deepcopy,
            # e.g. shipped to a worker process) and the copy is what gets updated now
            import copy, pickle
            SimpleStreamUpdater().update_seed(name, s, 2)
            s.next_float()
            s = pickle.loads(pickle.dumps(s)) if len(name) % 2 else copy.deepcopy(s)
        elif history:
            for _ in range(3):
                s.next_float()
            s.set_seed(12345)
            s.next_bool()
        streams[name] = s
    registered = None
    if cfg["updater"] == "simple":
        up = SimpleStreamUpdater()
    elif via_info:
        # the documented route: seed lists registered with a StreamSeedInformation, its table handed to the updater;
        # another StreamSeedInformation of the same process holds other lists for the same stream names
        from pydsol.core.streams import StreamSeedInformation
        decoy = StreamSeedInformation()
        for name in order:
            decoy.add_stream(name, MersenneTwister(1))
            decoy.add_seed_values(name, [901, 902])
        # (a stream named 'default' is handed over as the container's default stream, the documented constructor argument)
        info = StreamSeedInformation(streams["default"]) if "default" in streams else StreamSeedInformation()
        for name in order:
            if name != "default":
                info.add_stream(name, streams[name])
        registered = info.get_streams()      # what an experiment driver updates: the container's own view of its streams
        for k, v in cfg["table"].items():
            if k in streams:
                info.add_seed_values(k, [777, 778, 779])      # configured once ...
                info.add_seed_values(k, list(v))              # ... and configured again: the later list replaces the earlier one
        # refused configuration calls (a list with an element that is not an int) leave nothing behind: not for a configured
        # stream, not for one without a list
        for name in order:
            try:
                info.add_seed_values(name, [5, 6, "7"])
            except Exception:
                pass
        up = StreamSeedUpdater(info.get_seeds())
    elif ddict:
        # the seed table is a dict subclass that invents missing keys on look-up (collections.defaultdict(list))
        import collections
        up = StreamSeedUpdater(collections.defaultdict(list, {k: list(v) for k, v in cfg["table"].items()}))
    elif reconf:
        # the updater served replications with OTHER seed lists first (every stream listed, also the ones the configuration
        # leaves to the fallback); then its live table is reconfigured - lists replaced by new list objects, surplus entries
        # deleted - and only then the judged update happens
        up = StreamSeedUpdater({name: [9000 + 10 * k + j for j in range(12)] for k, name in enumerate(order)})
        try:
            up.update_seeds({name: MersenneTwister(5 + k) for k, name in enumerate(order)}, (cfg["r"] + 1) % 8)
        except Exception:
            pass
        live = up.get_stream_seeds()
        for name in order:
            if name in cfg["table"]:
                live[name] = list(cfg["table"][name])
            else:
                del live[name]
        for k, v in cfg["table"].items():
            if k not in live:
                live[k] = list(v)
    elif late:
        # the seed table is completed after the updater was built, through the live table the updater hands out:
        # at update time the configured seed lists are the same as in the base variant
        keys = list(cfg["table"])
        if isinstance(cfg["r"], int) and not isinstance(cfg["r"], bool) and cfg["r"] % 2 == 0:
            # ... or through the caller's own reference to the (still empty) dict the updater was built from, the way
            # StreamSeedUpdater(info.get_seeds()) is used with a seed information object that is configured afterwards
            own = {}
            up = StreamSeedUpdater(own)
            live = own
        else:
            up = StreamSeedUpdater({k: list(cfg["table"][k][:1]) for k in keys[:len(keys) // 2]})
            live = up.get_stream_seeds()
        for k in keys:
            if k in live:
                live[k].extend(cfg["table"][k][1:])
            else:
                live[k] = list(cfg["table"][k])
    else:
        up = StreamSeedUpdater({k: list(v) for k, v in cfg["table"].items()})
    out = {}
    if custom:
        # a user-defined fallback installed after construction serves the streams without a seed list
        from pydsol.core.streams import StreamUpdater

        class Mine(StreamUpdater):
            def update_seed(self, key, stream, replication_nr):
                stream.set_seed(7000 + 13 * len(key) + replication_nr)
        mine = Mine()
        up.set_fallback_stream_updater(mine)
        out["__fallback_getter_ok__"] = up.get_fallback_stream_updater() is mine
    if refused and cfg["updater"] != "simple":
        # the same updater refused updates before (a replication beyond a seed list; a chained table updater as fallback
        # that refuses in turn): a refused update leaves nothing behind
        refusals = 0
        decoy = MersenneTwister(99)
        for name in order:
            try:
                up.update_seed(name, decoy, 10 ** 6)
            except Exception:
                refusals += 1
        default = up.get_fallback_stream_updater()
        up.set_fallback_stream_updater(StreamSeedUpdater({"verif-unlisted": [5]}))
        try:
            up.update_seed("verif-unlisted", decoy, 3)
        except Exception:
            refusals += 1
        up.set_fallback_stream_updater(default)
        out["__refusals__"] = refusals
    if reuse:
        # the same updater object served other streams with the same names (other original seeds, another
        # replication number) before: an updater must not remember anything about streams it has seen
        decoys = {name: MersenneTwister(cfg["streams"][name] + 1000 + k) for k, name in enumerate(order)}
        try:
            up.update_seeds(decoys, (cfg["r"] + 1) % 3)
        except Exception:
            pass
    try:
        if cfg.get("one_by_one"):
            for name in order:
                up.update_seed(name, (registered if registered is not None else streams)[name], cfg["r"])
        else:
            up.update_seeds({k: v for k, v in registered.items() if k in streams} if registered is not None else streams, cfg["r"])
    except Exception as e:
        out["__error__"] = type(e).__name__
    for name in order:
        out[name] = [streams[name].seed(), draws(streams[name])]
    return out


def main():
    cfgs = json.load(open(sys.argv[1]))
    res = []
    for cfg in cfgs:
        names = list(cfg["streams"])
        r = {"base": apply(cfg, names), "perm": apply(cfg, cfg["perm"]), "hist": apply(cfg, names, history=True),
             "reuse": apply(cfg, names, reuse=True), "used": apply(cfg, names, history="used"), "alone": {}}
        for n in names:
            r["alone"][n] = apply(dict(cfg, streams={n: cfg["streams"][n]}), [n]).get(n)
        r["shipped"] = apply(cfg, names, history="shipped")
        r["reconf"] = apply(cfg, names, reconf=True) if cfg["updater"] == "table" else r["base"]
        r["late"] = apply(cfg, names, late=True) if cfg["updater"] == "table" else r["base"]
        r["info"] = apply(cfg, names, via_info=True) if cfg["updater"] == "table" else r["base"]
        if cfg["updater"] == "table":
            r["custom"] = apply(cfg, names, custom=True)
        r["ddict"] = apply(cfg, names, ddict=True) if cfg["updater"] == "table" else r["base"]
        if cfg["updater"] == "table":
            r["refused"] = apply(cfg, names, refused=True)
        if cfg["updater"] == "table":
            # what the fallback alone would do for every stream (oracle for unlisted streams)
            r["fallback"] = apply(dict(cfg, updater="simple"), names)
        res.append(r)
    json.dump(res, sys.stdout)


if __name__ == "__main__":
    main()
