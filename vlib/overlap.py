"""
Invariants that hold under *every* linearisation of commands overlapping the run thread's transitions
(DESIGN 3.4, I1-I4), evaluated on the harness timeline at final quiescence.
Returns a list of (symptom signature, detail).
"""
from vlib.simharness import num
from vlib.protocol import StreamAutomaton, STATES
from vlib.refdevs import WARMUP

START_LIKE = ("start", "run_up_to", "run_up_to_including", "step")


def split_replications(timeline):
    """cut the timeline at accepted initialize / cleanup commands"""
    parts, cur = [], []
    for r in timeline:
        cur.append(r)
        if r[0] == "c" and r[1] in ("initialize", "cleanup") and r[2] == "ret" and r[3] == "ok":
            parts.append(cur)
            cur = []
    parts.append(cur)
    return parts


def judge(h, warm, end, reference_trace=None, program_changed=False):
    out = []
    tl = list(h.timeline)
    snap = h.snapshot()
    pair = (snap["run_state"], snap["replication_state"])
    abstract = next((k for k, v in STATES.items() if v == pair), None)
    # I2: a documented quiescent state, thread dead iff ended / cleaned up
    if abstract is None:
        out.append((f"final-state:{pair[0]}/{pair[1]}", {"snapshot": snap}))
    else:
        if abstract in ("EE", "NI") and snap["worker"] not in ("dead", "none"):
            out.append((f"run-thread-alive-after:{abstract}", {"snapshot": snap}))
        if abstract in ("II", "SS") and snap["worker"] != "waiting":
            out.append((f"run-thread-not-parked-in:{abstract}", {"snapshot": snap}))
    # I1: stream automaton per replication
    for part in split_replications(tl):
        auto = StreamAutomaton(num(warm), num(end))
        for r in part:
            v = auto.feed(r)
            if v:
                out.append((f"stream:{v}", {"record": r}))
                break
    # I3: accepted commands take effect
    last = split_replications(tl)[-1]
    ended = any(r[0] == "n" and r[1] == "END_REPLICATION_EVENT" for r in last)
    for i, r in enumerate(last):
        if r[0] != "c" or r[2] != "ret" or r[3] != "ok":
            continue
        name = r[1]
        call = max((j for j in range(i) if last[j][0] == "c" and last[j][1] == name and last[j][2] == "call" and last[j][4] == r[4]), default=0)
        if name in START_LIKE and name != "step":
            nxt_start = next((j for j in range(i + 1, len(last)) if last[j][0] == "c" and last[j][1] in START_LIKE and last[j][2] == "call"),
                             len(last))
            if not any(x[0] == "n" and x[1] in ("START_EVENT", "END_REPLICATION_EVENT") for x in last[call:nxt_start]):
                # (a replication ended in the meantime - e.g. by end_replication from a listener - needs no START)
                out.append(("accepted-start-without-START", {"command": name}))
        if name == "stop":
            nxt = next((j for j in range(i + 1, len(last)) if last[j][0] == "c" and last[j][1] in START_LIKE and last[j][2] == "call"), len(last))
            later_h = [x for x in last[i + 1:nxt] if x[0] == "h"]
            nested = any(x[0] == "c" and x[1] in START_LIKE and x[2] == "call" and x[4] == r[4] and
                         not any(y[0] == "c" and y[1] == x[1] and y[2] == "ret" and y[4] == r[4] for y in last[last.index(x):call + 1])
                         for x in last[:call])
            if (r[4] == h.sim.name or nested) and later_h:
                # stop() issued on the run thread itself, or on the caller thread from inside its own step()/start()
                # (listener / handler): the event of the current loop iteration - "the event about to run" of a
                # TIME_CHANGED notification - still belongs to the run
                later_h = later_h[1:]
            if later_h:
                out.append(("handler-ran-after-accepted-stop", {"handlers": later_h[:5]}))
            if not any(x[0] == "n" and x[1] == "STOP_EVENT" for x in last[call:]):
                out.append(("accepted-stop-without-STOP", {}))
    # I4: executed events are a prefix of the reference trace, each once; the whole of it once ENDED
    if reference_trace is not None and not program_changed:
        got = [(x[1], x[2]) for x in last if x[0] == "h"]
        want = [(t, c) for t, c, _ in reference_trace if t != WARMUP]
        if got != want[:len(got)]:
            tags = [t for t, _ in got]
            sig = "event-executed-twice" if len(set(tags)) < len(tags) else "trace-not-a-prefix-of-the-reference"
            out.append((sig, {"got": got[:12], "want": want[:12]}))
        elif abstract == "EE" and len(got) != len(want):
            out.append(("ended-without-executing-all-events", {"n_got": len(got), "n_want": len(want)}))
    return out, abstract
