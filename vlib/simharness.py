"""
Harness around the *real* simulator (monitors M2, M3, M4 of DESIGN.md):
 - ProgModel interprets a JSON model program inside construct_model / event handlers and records, at the
   boundary, every handler invocation (tag, clock seen by the handler, priority) and the outcome of every
   scheduling request (accepted / exception type, pending size before and after);
 - Tap: class-level Simulator.__setattr__ recorder for _simulator_time / _run_state / _replication_state
   (sequence number, thread, old, new), updated atomically with the write it shadows;
 - Recorder: listener on the five simulator and three replication event types (re-subscribed after every
   initialize / cleanup);
 - gates: handlers that park on threading.Events the harness controls; quiescence as a logical condition.
"""
import math
import threading
import time

from vlib.refdevs import tnum, BAD_VALUES, WARMUP

_ALL = []                 # every simulator ever created in this process (cleaned up at shard end)
_tap_lock = threading.Lock()
_tap_installed = [False]


def install_tap():
    """M2: record writes of the watched attributes for *every* Simulator instance"""
    if _tap_installed[0]:
        return
    from pydsol.core.simulator import Simulator
    watched = ("_simulator_time", "_run_state", "_replication_state")
    orig_init = Simulator.initialize

    def tap(self, name, value):
        if name in watched:
            log = self.__dict__.get("_verif_writes")
            if log is not None:
                with _tap_lock:
                    old = self.__dict__.get(name)
                    object.__setattr__(self, name, value)
                    log.append((name, old, value, threading.current_thread().name, self.__dict__.get("_verif_in_init", False)))
                return
        object.__setattr__(self, name, value)

    Simulator.__setattr__ = tap
    _tap_installed[0] = True


def num(t):
    """exact numeric value of a clock / time stamp: ints stay ints (they may exceed 2**53), everything else -> float (SI)"""
    return t if type(t) is int else float(t)


def time_value(prog, x):
    """program literal -> object handed to the real simulator"""
    if prog["clock"] == "duration":
        from pydsol.core.units import Duration
        if isinstance(x, list):
            return Duration(x[0], x[1])
        return Duration(float(x), "s")
    return x


def make_simulator(prog, name="sim"):
    from pydsol.core import simulator as S
    c = prog["clock"]
    if c == "float":
        return S.DEVSSimulatorFloat(name)
    if c == "int":
        return S.DEVSSimulatorInt(name)
    return S.DEVSSimulatorDuration(name, "s")


_etype_counter = [0]
_FOREIGN = []


def foreign_type():
    """one process-wide event type that no statistic of a judged model listens to"""
    if not _FOREIGN:
        from pydsol.core.pubsub import EventType
        _FOREIGN.append(EventType("verif_foreign_data"))
    return _FOREIGN[0]
_LABELLED = []


def _labelled_event(direct=False):
    if not _LABELLED:
        from pydsol.core.simevent import SimEvent

        class LabelledEvent(SimEvent):
            """model-defined SimEvent subclass"""

        class DirectEvent(SimEvent):
            """model-defined SimEvent subclass with its own execute(): whatever the handler raises comes out as it is"""

            def execute(self):
                from pydsol.core.utils import DSOLError
                try:
                    self._method(**self._kwargs)
                except Exception:
                    raise               # RuntimeError, KeyError, ... leave execute() unwrapped
                except BaseException as e:
                    raise DSOLError(f"handler aborted: {type(e).__name__}")     # (as the library's own execute() does)
        _LABELLED.append(LabelledEvent)
        _LABELLED.append(DirectEvent)
    return _LABELLED[1] if direct else _LABELLED[0]


def _stat_event_types(kind):
    from pydsol.core.interfaces import StatEvents as E
    common = [E.OBSERVATION_ADDED_EVENT, E.N_EVENT, E.INITIALIZED_EVENT]
    if kind == "counter":
        return common + [E.COUNT_EVENT]
    if kind == "tally":
        return common + [E.MIN_EVENT, E.MAX_EVENT, E.SUM_EVENT, E.MEAN_EVENT, E.POPULATION_STDEV_EVENT, E.POPULATION_VARIANCE_EVENT,
                         E.POPULATION_SKEWNESS_EVENT, E.POPULATION_KURTOSIS_EVENT, E.POPULATION_EXCESS_K_EVENT, E.SAMPLE_STDEV_EVENT,
                         E.SAMPLE_VARIANCE_EVENT, E.SAMPLE_SKEWNESS_EVENT, E.SAMPLE_KURTOSIS_EVENT, E.SAMPLE_EXCESS_K_EVENT]
    return common + [E.MIN_EVENT, E.MAX_EVENT, E.WEIGHTED_SUM_EVENT, E.WEIGHTED_MEAN_EVENT, E.WEIGHTED_POPULATION_STDEV_EVENT,
                     E.WEIGHTED_POPULATION_VARIANCE_EVENT, E.WEIGHTED_SAMPLE_STDEV_EVENT, E.WEIGHTED_SAMPLE_VARIANCE_EVENT]


_GETTER_OF_EVENT = {
    "N_EVENT": lambda s: s.n(), "COUNT_EVENT": lambda s: s.count(), "MIN_EVENT": lambda s: s.min(), "MAX_EVENT": lambda s: s.max(),
    "SUM_EVENT": lambda s: s.sum(), "MEAN_EVENT": lambda s: s.mean(), "POPULATION_STDEV_EVENT": lambda s: s.stdev(),
    "POPULATION_VARIANCE_EVENT": lambda s: s.variance(), "POPULATION_SKEWNESS_EVENT": lambda s: s.skewness(),
    "POPULATION_KURTOSIS_EVENT": lambda s: s.kurtosis(), "POPULATION_EXCESS_K_EVENT": lambda s: s.excess_kurtosis(),
    "SAMPLE_STDEV_EVENT": lambda s: s.stdev(False), "SAMPLE_VARIANCE_EVENT": lambda s: s.variance(False),
    "SAMPLE_SKEWNESS_EVENT": lambda s: s.skewness(False), "SAMPLE_KURTOSIS_EVENT": lambda s: s.kurtosis(False),
    "SAMPLE_EXCESS_K_EVENT": lambda s: s.excess_kurtosis(False), "WEIGHTED_SUM_EVENT": lambda s: s.weighted_sum(),
    "WEIGHTED_MEAN_EVENT": lambda s: s.weighted_mean(), "WEIGHTED_POPULATION_STDEV_EVENT": lambda s: s.weighted_stdev(),
    "WEIGHTED_POPULATION_VARIANCE_EVENT": lambda s: s.weighted_variance(), "WEIGHTED_SAMPLE_STDEV_EVENT": lambda s: s.weighted_stdev(False),
    "WEIGHTED_SAMPLE_VARIANCE_EVENT": lambda s: s.weighted_variance(False),
}


def stat_getters(st):
    """every public getter of a statistic as a canonical dict of hex floats (NaN-aware)"""
    from vlib.base import fx
    out = {}
    names = ["n", "count", "min", "max", "sum", "mean", "weighted_sum", "weighted_mean"]
    for nme in names:
        if hasattr(st, nme):
            try:
                out[nme] = fx(getattr(st, nme)())
            except Exception as e:
                out[nme] = "raised:" + type(e).__name__
    for nme in ("variance", "stdev", "skewness", "kurtosis", "excess_kurtosis", "weighted_variance", "weighted_stdev"):
        if hasattr(st, nme):
            for b in (True, False):
                try:
                    out[f"{nme}:{b}"] = fx(getattr(st, nme)(b))
                except Exception as e:
                    out[f"{nme}:{b}"] = "raised:" + type(e).__name__
    if hasattr(st, "confidence_interval"):
        try:
            out["ci"] = fx(st.confidence_interval(0.05))
        except Exception as e:
            out["ci"] = "raised:" + type(e).__name__
    if hasattr(st, "isactive"):
        out["active"] = st.isactive()
    return out


_SE = []


def _strategy_enum():
    if not _SE:
        import enum
        from pydsol.core.simulator import ErrorStrategy
        _SE.append(enum.IntEnum("OnError", {"LOG": ErrorStrategy.LOG_AND_CONTINUE, "WARN": ErrorStrategy.WARN_AND_CONTINUE,
                                            "PAUSE": ErrorStrategy.WARN_AND_PAUSE}))
    return _SE[0]


class _Unprintable:
    def __repr__(self):
        raise RuntimeError("this job cannot be rendered")
    __str__ = __repr__


_INITIAL_CALLS = [0]


class InjectedAbort(BaseException):
    """a handler failure that is not an Exception subclass (like KeyboardInterrupt or a framework's abort signal)"""


class Runaway(Exception):
    """events were executed far more often than they were scheduled (emergency brake fired)"""


class Gate:
    def __init__(self):
        self.reached = threading.Event()
        self.open = threading.Event()


class Harness:
    def __init__(self, prog, name="sim"):
        from pydsol.core.experiment import SingleReplication
        from pydsol.core.model import DSOLModel
        from pydsol.core.pubsub import EventListener
        from pydsol.core.interfaces import SimulatorInterface, ReplicationInterface
        install_tap()
        self.prog = prog
        self.sim = make_simulator(prog, name)
        self.sim.__dict__["_verif_writes"] = []
        _ALL.append(self.sim)
        self.hlog = []            # (tag, clock as float, clock type name, priority)
        self.slog = []            # scheduling requests: (parent, index, kind, outcome, size_before, size_after)
        self.nlog = []            # notifications: (type name, timestamp float|None, thread name)
        self.events = {}
        self.gates = {}
        self.pause_at = None      # park the handler of the n-th executed model event (1-based, counted from arm time)
        self.pause_gate = None
        self.timeline = []        # handler / notification / observation records in one global order
        self.stats = {}           # key -> statistic object created in construct_model (latest replication)
        self.streams = {}
        self.producers = {}
        self.published = []       # (key, event type name, payload, getter value inside the notification)
        self.exec_count = 0
        self.bad_strategy_accepted = []
        self.inits = 0
        self.runaway = False
        self.listener_tags = []   # tags of events scheduled by simulator listeners ('schedannounced')
        self.workers = []         # every run thread this simulator ever created
        self.max_exec = 32 * (len(prog.get("handlers", {})) + len(prog.get("init", [])) + len(prog.get("initial", [])) + 50)
        h = self

        class ProgModel(DSOLModel):
            def construct_model(self):
                h.inits += 1
                h._construct_extras(self)
                if h.on_construct:
                    h.on_construct(self)
                h._actions(self, h.prog.get("init", []), None)

            def initial(self):
                _INITIAL_CALLS[0] += 1          # (process-wide: whose initialize() ran this method is part of the observation)
                h._actions(self, h.prog.get("initial", []), "@initial")

            def h(self, tag, job=None):
                sim = self.simulator
                t = sim.simulator_time
                ev = h.events.get(tag)
                h.exec_count += 1
                if h.exec_count > h.max_exec:
                    # emergency brake (a tree that re-executes events would otherwise run and allocate for ever):
                    # every tag is scheduled at most once, so this many executions is already a violation
                    h.runaway = True
                    sim.eventlist().clear()
                    return
                h.hlog.append((tag, num(t), type(t).__name__, ev.priority if ev is not None else None))
                h.timeline.append(("h", tag, num(t), ev.priority if ev is not None else None))
                if h.sleeper:
                    h.sleeper()
                if h.pause_at is not None and h.exec_count == h.pause_at:
                    g = h.pause_gate
                    g.reached.set()
                    g.open.wait(30)
                h._actions(self, h.prog["handlers"].get(tag, []), tag)

        if prog.get("unhashable_model"):
            # a model class with value equality and therefore no hash (a dataclass-like model, or one derived from list / dict)
            ProgModel.__eq__ = lambda self, other: self is other
            ProgModel.__hash__ = None
        if prog.get("empty_container_model"):
            # a model class that is also the container of its entities (it has __len__) and is still empty: falsy, yet a model
            ProgModel.__len__ = lambda self: 0

        class Recorder(EventListener):
            def notify(self, event):
                ts = getattr(event, "timestamp", None)
                h.nlog.append((event.event_type.name, None if ts is None else num(ts), threading.current_thread().name))
                h.timeline.append(("n", event.event_type.name, None if ts is None else num(ts)))
                cb = h.on_notify
                if cb:
                    cb(event.event_type.name, event)

        self.on_construct = None
        self.sleeper = None
        self.on_notify = None
        self.on_action = None
        self.model = ProgModel(self.sim)
        self.recorder = Recorder()
        self.experiment = None
        if prog.get("experiment"):
            from pydsol.core.streams import StreamInformation, MersenneTwister, SimpleStreamUpdater, StreamSeedUpdater
            specs = prog.get("streams", [])
            info = StreamInformation(MersenneTwister(specs[0].get("seed", 10))) if prog["experiment"].get("default_first") else StreamInformation()
            for sp in specs:
                info.add_stream(sp["name"], MersenneTwister(sp.get("seed", 10)))
            if prog["experiment"].get("alias") and specs:
                # one stream object registered under a second id as well (e.g. a shared 'default' stream): the updater then
                # serves it twice, in registration order
                info.add_stream("zz_alias_of_" + specs[0]["name"], info.get_stream(specs[0]["name"]))
            if prog["experiment"]["updater"] == "table":
                upd = StreamSeedUpdater({specs[0]["name"]: prog["experiment"]["table"]})    # the other streams use the fallback updater
            else:
                upd = SimpleStreamUpdater()
            self.experiment = {"info": info, "updater": upd}
        # events the model builds in its constructor, long before initialize, and schedules later
        from vlib.refdevs import pre_tags
        self.pre_events = {}
        for tag in pre_tags(prog):
            a = next(x for acts in [prog.get("init", []), prog.get("initial", [])] + list(prog["handlers"].values()) for x in acts
                     if x and x[0] == "pre" and x[3] == tag)
            self.pre_events[tag] = _labelled_event()(time_value(prog, a[1]), self.model, "h", a[2], tag=tag)
        if prog.get("initial"):
            self.sim.add_initial_method(self.model, "initial")      # registered once, before the first initialize
        self.types = [SimulatorInterface.STARTING_EVENT, SimulatorInterface.START_EVENT, SimulatorInterface.STOPPING_EVENT,
                      SimulatorInterface.STOP_EVENT, SimulatorInterface.TIME_CHANGED_EVENT,
                      ReplicationInterface.START_REPLICATION_EVENT, ReplicationInterface.END_REPLICATION_EVENT,
                      ReplicationInterface.WARMUP_EVENT]
        r = prog["rep"]
        self.replication = SingleReplication("rep", time_value(prog, r["start"]), time_value(prog, r["warmup"]),
                                             time_value(prog, r["length"]))
        if prog.get("plain_replication"):
            # a model-defined replication object: it implements ReplicationInterface (the three times) and nothing else
            lib = self.replication

            class PlainReplication(ReplicationInterface):
                def __init__(self, start, warm, end):
                    self._s, self._w, self._e = start, warm, end

                @property
                def start_sim_time(self):
                    return self._s

                @property
                def warmup_sim_time(self):
                    return self._w

                @property
                def end_sim_time(self):
                    return self._e
            self.replication = PlainReplication(lib.start_sim_time, lib.warmup_sim_time, lib.end_sim_time)
        strat = prog.get("strategy")
        if strat:
            from pydsol.core.simulator import ErrorStrategy
            es = {"log": ErrorStrategy.LOG_AND_CONTINUE, "warn": ErrorStrategy.WARN_AND_CONTINUE,
                  "pause": ErrorStrategy.WARN_AND_PAUSE}[strat]
            how = prog.get("strategy_call", "plain")
            if how == "level_kw":
                self.sim.set_error_strategy(es, log_level=60)      # explicit log level (above CRITICAL: stays quiet)
            elif how == "level_pos":
                self.sim.set_error_strategy(es, 60)
            elif how == "intenum":
                # the model's own enumeration of the strategies (an IntEnum whose members equal the library's constants)
                self.sim.set_error_strategy(_strategy_enum()(es))
            else:
                self.sim.set_error_strategy(es)

    # ---------------------------------------------------------------- program actions on the real simulator
    def _actions(self, model, actions, parent):
        sim = model.simulator
        for i, a in enumerate(actions):
            k = a[0]
            if k in ("rel", "abs", "now", "ev", "pre", "bad_rel", "bad_abs"):
                before = sim.eventlist().size()
                out = "ok"
                ev = None
                try:
                    if k == "rel":
                        ev = sim.schedule_event_rel(time_value(self.prog, a[1]), model, "h", a[2], **self._kw(a[3]))
                    elif k == "abs":
                        ev = sim.schedule_event_abs(time_value(self.prog, a[1]), model, "h", a[2], **self._kw(a[3]))
                    elif k == "now":
                        ev = sim.schedule_event_now(model, "h", a[1], **self._kw(a[2]))
                    elif k == "pre":
                        ev = sim.schedule_event(self.pre_events[a[3]])
                    elif k == "ev":
                        # a user-defined event class (public API: schedule_event takes any SimEventInterface)
                        ev = sim.schedule_event(_labelled_event(direct=sum(map(ord, a[3])) % 2 == 0)(time_value(self.prog, a[1]), model, "h", a[2], **self._kw(a[3])))
                    else:
                        v = BAD_VALUES[a[1]]
                        if a[1] == "past":
                            cur = sim.simulator_time
                            v = cur - time_value(self.prog, 1) if k == "bad_abs" else time_value(self.prog, -1)
                        elif isinstance(v, (int, float)) and not isinstance(v, bool) and self.prog["clock"] == "duration":
                            v = time_value(self.prog, float(v))
                        elif isinstance(v, float) and self.prog["clock"] == "int" and v == v:
                            v = int(v) if v == int(v) else -1
                        if k == "bad_rel":
                            ev = sim.schedule_event_rel(v, model, "h", 5, tag=f"bad{parent}_{i}")
                        else:
                            ev = sim.schedule_event_abs(v, model, "h", 5, tag=f"bad{parent}_{i}")
                except Exception as e:
                    out = type(e).__name__
                after = sim.eventlist().size()
                if ev is not None and k not in ("bad_rel", "bad_abs"):
                    self.events[a[3] if k != "now" else a[2]] = ev
                self.slog.append((parent, i, k, out, before, after))
            elif k == "cancel":
                ev = self.events.get(a[1])
                if ev is not None:
                    try:
                        sim.cancel_event(ev)
                        self.slog.append((parent, i, "cancel", "ok", 0, 0))
                    except Exception as e:
                        self.slog.append((parent, i, "cancel", type(e).__name__, 0, 0))
            elif k == "raise":
                kind = a[1] if len(a) > 1 else "exc"
                if kind == "base":
                    raise InjectedAbort(f"injected handler fault in {parent}")
                if kind == "exit":
                    raise SystemExit(f"injected handler fault in {parent}")
                if kind == "key":
                    raise KeyError(parent)
                if kind == "bare":
                    raise RuntimeError          # an exception without arguments (a bare `raise SomeError`)
                if kind == "assert":
                    assert parent is None and parent is not None      # an AssertionError without a message
                if kind == "chained":
                    try:
                        {}["missing"]
                    except KeyError as inner:
                        raise ValueError from inner      # no arguments, with a cause
                raise RuntimeError(f"injected handler fault in {parent}")
            elif k == "strategy":
                from pydsol.core.simulator import ErrorStrategy
                sim.set_error_strategy({"log": ErrorStrategy.LOG_AND_CONTINUE, "warn": ErrorStrategy.WARN_AND_CONTINUE,
                                        "pause": ErrorStrategy.WARN_AND_PAUSE}[a[1]])
            elif k == "endrep":
                sim.end_replication()       # the model ends its replication early, from inside a handler
            elif k == "badstrategy":
                # a strategy that does not exist must be refused (with or without an explicit log level) and change nothing
                bogus = {"zero": 0, "name": "pause", "none": None, "big": 99, "neg": -1}[a[1]]
                try:
                    if a[2]:
                        sim.set_error_strategy(bogus, 60)
                    else:
                        sim.set_error_strategy(bogus)
                    self.bad_strategy_accepted.append(a)
                except Exception:
                    pass
            elif k == "gate":
                g = self.gates.setdefault(a[1], Gate())
                g.reached.set()
                g.open.wait(30)
            elif k == "obs":
                self._observe(model, a)
            elif k == "drawrel":
                d = self._draw(a[1], a[2], a[3])
                ev = sim.schedule_event_rel(time_value(self.prog, d) if self.prog["clock"] != "int" else int(d),
                                            model, "h", a[4], tag=a[5])
                self.events[a[5]] = ev
            elif k == "fanfire":
                self.fan_count += 1
                how = a[2] if len(a) > 2 else "fire"
                et, now = self.fan_types[a[1]], sim.simulator_time
                # the four ways to publish are documented alike: (timed) content or a ready-made (timed) event
                if how == "fire":
                    self.fan_producer.fire(et, self.fan_count)
                elif how == "fire_timed":
                    self.fan_producer.fire_timed(now, et, self.fan_count)
                elif how == "fire_event":
                    from pydsol.core.pubsub import Event
                    self.fan_producer.fire_event(Event(et, self.fan_count))
                else:
                    from pydsol.core.pubsub import TimedEvent
                    self.fan_producer.fire_timed_event(TimedEvent(now, et, self.fan_count))
            elif self.on_action:
                self.on_action(model, a, parent)

    # ---------------------------------------------------------------- statistics / streams created by the model
    def _construct_extras(self, model):
        """what the documentation tells model authors to do in construct_model: (re)create streams and statistics"""
        from pydsol.core import statistics as S
        from pydsol.core.streams import MersenneTwister
        from pydsol.core.pubsub import EventProducer, EventType, EventListener
        from pydsol.core.interfaces import StatEvents
        sim = model.simulator
        self.streams = {sp["name"]: MersenneTwister(sp["seed"]) for sp in self.prog.get("streams", []) if sp.get("via") != "info"}
        if self.experiment is not None:
            # experiment style: the streams live in one StreamInformation for all replications; the driver re-seeds them
            # with a stream updater before every initialize (see update_seeds)
            self.streams = dict(self.experiment["info"].get_streams())
        for sp in self.prog.get("streams", []):
            if sp.get("via") == "info" and self.experiment is None:
                # the documented convenience: a fresh StreamInformation() owns a fresh 'default' stream (seed 10)
                from pydsol.core.streams import StreamInformation
                self.streams[sp["name"]] = StreamInformation().get_stream("default")
        if self.experiment is None or not hasattr(self, "dists"):
            self.dists = {}         # (experiment style keeps its distribution objects for all replications)
        self.stats = {}
        # (producers flagged keep_producer outlive the replication, like a model object that is its own event producer)
        keep = {sp["key"] for sp in self.prog.get("stats", []) if sp.get("keep_producer")}
        self.producers = {k: v for k, v in self.producers.items() if k in keep}
        if not hasattr(self, "etypes"):
            self.etypes = {}
        h = self
        # pub/sub fan-out owned by the model: listeners subscribed in the listed order, scripts run inside notify
        fan = self.prog.get("fanout")
        if fan:
            self.fan_producer = EventProducer()
            self.fan_count = 0
            if not hasattr(self, "fan_types"):
                self.fan_types = {}
            for tname, listeners in fan.items():
                if tname not in self.fan_types:
                    _etype_counter[0] += 1
                    self.fan_types[tname] = EventType(f"verif_fan_{_etype_counter[0]}")

                class FanListener(EventListener):
                    def __init__(self, tname, spec):
                        self.tname, self.spec, self.n = tname, spec, 0

                    def notify(self, event):
                        self.n += 1
                        h.timeline.append(("l", self.tname, self.spec["name"], event.content))
                        if h.sleeper:
                            h.sleeper()
                        for a in self.spec["script"]:
                            if a[0] == "draw":
                                h.timeline.append(("d", self.spec["name"], h.streams[a[1]].next_float().hex()))
                            elif a[0] == "schedrel":
                                d = h._draw(a[1], "DistExponential", [1.0])
                                tag = f"{self.spec['name']}_{self.tname}_{self.n}"
                                ev = sim.schedule_event_rel(time_value(h.prog, d) if h.prog["clock"] != "int" else int(d),
                                                            model, "h", a[2], tag=tag)
                                h.events[tag] = ev
                            elif a[0] == "obs":
                                h._observe(model, a)
                            elif a[0] == "resub" and self.n == a[1]:
                                # this listener subscribes again although it is subscribed (documented: ignored)
                                h.fan_producer.add_listener(h.fan_types[self.tname], self)
                            elif a[0] == "unsub" and self.n == a[1]:
                                # this listener unsubscribes itself after its a[1]-th notification
                                h.timeline.append(("u", self.tname, self.spec["name"]))
                                h.fan_producer.remove_listener(h.fan_types[self.tname], self)
                for spec in listeners:
                    self.fan_producer.add_listener(self.fan_types[tname], FanListener(tname, spec))
        # listeners the model subscribes to the *simulator's* notifications in construct_model (fresh objects every
        # replication, as initialize() drops all subscriptions of the previous one)
        for spec in self.prog.get("simlisteners", []):
            from pydsol.core.interfaces import SimulatorInterface, ReplicationInterface

            class SimListener(EventListener):
                def __init__(self, spec):
                    self.spec, self.n = spec, 0

                def notify(self, event):
                    self.n += 1
                    if self.spec["script"] != [["clock"]]:
                        h.timeline.append(("sl", self.spec["name"], event.event_type.name))
                    for a in self.spec["script"]:
                        if a[0] == "clock":
                            # what the listener sees: the notified time and the simulator clock at that moment
                            h.timeline.append(("sc", self.spec["name"], float(event.timestamp).hex(), float(sim.simulator_time).hex()))
                        elif a[0] == "draw":
                            h.timeline.append(("d", self.spec["name"], h.streams[a[1]].next_float().hex()))
                        elif a[0] == "schedrel":
                            d = h._draw(a[1], "DistExponential", [1.0])
                            tag = f"{self.spec['name']}_{self.n}"
                            ev = sim.schedule_event_rel(time_value(h.prog, d) if h.prog["clock"] != "int" else int(d),
                                                        model, "h", a[2], tag=tag)
                            h.events[tag] = ev
                        elif a[0] == "schedannounced":
                            # an event of its own at the announced time (absolute), with priority a[1]; no actions behind it
                            tag = f"{self.spec['name']}_{self.n}"
                            h.listener_tags.append(tag)
                            ev = sim.schedule_event_abs(event.timestamp, model, "h", a[1], tag=tag)
                            h.events[tag] = ev
                        elif a[0] == "unsub" and self.n == a[1]:
                            # a one-shot listener: unsubscribes itself inside its a[1]-th notification
                            sim.remove_listener(event.event_type, self)
            et = {"WARMUP_EVENT": ReplicationInterface.WARMUP_EVENT, "TIME_CHANGED_EVENT": SimulatorInterface.TIME_CHANGED_EVENT,
                  "START_EVENT": SimulatorInterface.START_EVENT}[spec["type"]]
            sim.add_listener(et, SimListener(spec))
        for sp in self.prog.get("stats", []):
            key, kind = sp["key"], sp["kind"]
            if kind in ("plaincounter", "plaintally"):
                # an ordinary (not simulation-aware) statistic the model creates and registers itself as an output statistic
                st = S.Counter("plain " + key) if kind == "plaincounter" else S.Tally("plain " + key)
                model.add_output_statistic(key, st)
                self.stats[key] = st
                continue
            cls = {"counter": S.SimCounter, "tally": S.SimTally, "wtally": S.SimWeightedTally, "persistent": S.SimPersistent}[kind]
            if sp.get("via") == "event":
                if key not in self.etypes:
                    _etype_counter[0] += 1
                    self.etypes[key] = EventType(f"verif_data_{_etype_counter[0]}")
                # (a producer that outlives the replication - e.g. the model object itself - keeps the statistics of earlier
                # replications among its subscribers; the statistic built now subscribes next to them)
                prod = self.producers[key] if (sp.get("keep_producer") and key in self.producers) else EventProducer()
                self.producers[key] = prod
                st = cls(key, "stat " + key, sim, producer=prod, event_type=self.etypes[key])
                if sp.get("two_types"):
                    # the statistic also listens to a second producer with another event type (listen_to may be called
                    # several times): observations then arrive through both
                    k2 = key + "#2"
                    if k2 not in self.etypes:
                        _etype_counter[0] += 1
                        self.etypes[k2] = EventType(f"verif_data_{_etype_counter[0]}")
                    self.producers[k2] = EventProducer()
                    st.listen_to(self.producers[k2], self.etypes[k2])
                    self.obs_toggle = getattr(self, "obs_toggle", {})
                    self.obs_toggle[key] = 0
            else:
                st = cls(key, "stat " + key, sim)
            self.stats[key] = st
            if sp.get("foreign"):
                # the statistic is also subscribed, directly, to an event type it does not listen to: such events are
                # documented to be silently skipped (whatever other statistics of this process listen to)
                self.foreign_prod = getattr(self, "foreign_prod", None) or EventProducer()
                self.foreign_prod.add_listener(foreign_type(), st)
            if sp.get("baseline") is not None:
                # a subscriber of the statistic's own INITIALIZED notification that registers a baseline observation right
                # away (re-entrant call into the statistic from its own notification): it is an observation made after the reset
                from pydsol.core.interfaces import StatEvents as _SE

                class Baseline(EventListener):
                    def __init__(self, key, vals):
                        self.key, self.vals = key, vals

                    def notify(self, event):
                        h._observe(model, ["obs", self.key] + list(self.vals), mark="baseline")
                st.add_listener(_SE.INITIALIZED_EVENT, Baseline(key, sp["baseline"]))
            if sp.get("watch"):
                class Watch(EventListener):
                    def __init__(self, key, st):
                        self.key, self.st = key, st

                    def notify(self, event):
                        h._published(self.key, self.st, event)
                        if self.mode == "reset3" and event.event_type.name == "N_EVENT" and event.content == 3:
                            # a batch-means subscriber: it closes the batch (re-initialises the statistic) once n reaches 3,
                            # from inside the notification; what is published afterwards describes the new batch
                            self.st.initialize()
                wl = Watch(key, st)
                wl.mode = sp["watch"]
                for et in _stat_event_types(kind):
                    st.add_listener(et, wl)

    def _published(self, key, st, event):
        name = event.event_type.name
        getter = _GETTER_OF_EVENT.get(name)
        val = None
        if getter is not None:
            try:
                val = getter(st)
            except Exception as e:
                val = ("raised", type(e).__name__)
        self.published.append((key, name, event.content, val, getattr(event, "timestamp", None)))

    def _observe(self, model, a, mark=None):
        from vlib.subtypes import materialize
        sim = model.simulator
        key = a[1]
        raw, a = a, list(a[:2]) + [materialize(x) for x in a[2:]]      # (the timeline keeps the JSON form of the case)
        st = self.stats[key]
        spec = next(sp for sp in self.prog["stats"] if sp["key"] == key)
        kind = spec["kind"]
        t = sim.simulator_time
        self.timeline.append(("o", key, num(t), raw[2:]) if mark is None else ("o", key, num(t), raw[2:], mark))
        if spec.get("foreign"):
            # an event of the foreign type with a well-formed payload, before the real observation: skipped
            from pydsol.core.pubsub import TimedEvent as _TE, Event as _E
            fp = a[2] if kind != "wtally" else (a[2], a[3])
            self.foreign_prod.fire_event(_TE(float(num(t)), foreign_type(), fp) if kind == "persistent" else _E(foreign_type(), fp))
        if spec.get("via") == "event":
            payload = a[2] if kind != "wtally" else (a[2], a[3])
            src = key
            if spec.get("two_types"):
                self.obs_toggle[key] += 1
                src = key if self.obs_toggle[key] % 2 else key + "#2"
            self.producers[src].fire(self.etypes[src], payload)
        elif spec.get("via") == "notify":
            # the statistic is handed its documented default data event directly (no producer, no listen_to)
            from pydsol.core.pubsub import Event, TimedEvent
            from pydsol.core.interfaces import StatEvents
            if kind == "wtally":
                st.notify(Event(StatEvents.WEIGHT_DATA_EVENT, (a[2], a[3])))
            elif kind == "persistent":
                st.notify(TimedEvent(float(t), StatEvents.TIMESTAMP_DATA_EVENT, a[2]))
            else:
                st.notify(Event(StatEvents.DATA_EVENT, a[2]))
        elif kind == "wtally":
            st.register(a[2], a[3])
        elif kind in ("plaincounter", "plaintally"):
            st.register(a[2])
        elif kind == "persistent":
            st.register(float(t), a[2])
        else:
            st.register(a[2])

    def _draw(self, stream, dist, params):
        from pydsol.core import distributions as D
        dk = (stream, dist, tuple(params))
        d = self.dists.get(dk)
        if d is None:
            d = getattr(D, dist)(self.streams[stream], *params)
            self.dists[dk] = d
        return d.draw()

    # ---------------------------------------------------------------- commands and observation
    def subscribe(self):
        if getattr(self, "oneshot", False):
            # one-shot listeners (they unsubscribe themselves inside their first notification) subscribed just before the
            # recorder: every other subscriber still gets every notification
            from pydsol.core.pubsub import EventListener
            sim = self.sim

            class OneShot(EventListener):
                def notify(self, event):
                    sim.remove_listener(event.event_type, self)
            for t in self.types:
                self.sim.add_listener(t, OneShot())
        for t in self.types:
            self.sim.add_listener(t, self.recorder)

    def initialize(self):
        self.sim.__dict__["_verif_in_init"] = True
        before = _INITIAL_CALLS[0]
        try:
            self.sim.initialize(self.model, self.replication)
        finally:
            # how many initial methods (of ANY model in this process) this initialize() ran: its own, registered once
            self.initial_methods_run = _INITIAL_CALLS[0] - before
            self.sim.__dict__["_verif_in_init"] = False
            w = self.worker()
            if w is not None and w not in self.workers:
                self.workers.append(w)
        self.subscribe()

    def worker(self):
        return getattr(self.sim, "_Simulator__worker", None)

    def quiescent(self):
        w = self.worker()
        if w is None or not w.is_alive():
            return True
        flag = getattr(w, "_SimulatorWorkerThread__wakeup_flag")
        return (not flag.is_set()) and w.is_waiting() and not w.is_running()

    def wait_quiescent(self, timeout=30.0):
        t0 = time.time()
        n = 0
        while not self.quiescent():
            n += 1
            time.sleep(0.0002 if n < 2000 else 0.002)
            if time.time() - t0 > timeout:
                return False
        return True

    def snapshot(self):
        w = self.worker()
        if self.runaway:
            raise Runaway(self.exec_count)
        return {"run_state": self.sim.run_state.name, "replication_state": self.sim.replication_state.name,
                "clock": num(self.sim.simulator_time), "pending": self.sim.eventlist().size(),
                "worker": "none" if w is None else ("dead" if not w.is_alive() else ("waiting" if w.is_waiting() and not w.is_running() else "busy"))}

    def cmd(self, name, *args):
        """issue a command on the calling thread; returns 'ok' or the exception type name"""
        me = threading.current_thread().name
        self.timeline.append(("c", name, "call", None, me))
        out = self._cmd(name, *args)
        self.timeline.append(("c", name, "ret", out, me))
        return out

    def _cmd(self, name, *args):
        t0 = time.time()
        try:
            if name == "initialize":
                self.initialize()
            elif name == "run_up_to":
                self.sim.run_up_to(time_value(self.prog, args[0]))
            elif name == "run_up_to_including":
                self.sim.run_up_to_including(time_value(self.prog, args[0]))
            elif name == "cleanup":
                self.sim.cleanup()
            else:
                getattr(self.sim, name)()
            # what the caller sees the moment the command returns
            self.state_at_return = self.sim.run_state.name
            self.cmd_seconds = time.time() - t0
            return "ok"
        except BaseException as e:     # also SystemExit / abort signals escaping from a command are an observation
            return type(e).__name__

    def start_and_pause_after(self, n, starter="start", arg=None, timeout=30.0):
        """start a run and stop() it while the handler of the n-th model event of this run is executing (M4):
        the handler parks at a gate, a helper thread issues stop(), the gate opens once STOPPING is observed.
        returns (start outcome, stop outcome, parked?)"""
        self.pause_gate = Gate()
        self.pause_at = self.exec_count + n
        out = self.cmd(starter, *([arg] if arg is not None else []))
        if out != "ok":
            self.pause_at = None
            return out, None, False
        parked = self.pause_gate.reached.wait(0.0)
        t0 = time.time()
        while not parked and not self.quiescent() and time.time() - t0 < timeout:
            parked = self.pause_gate.reached.wait(0.0005)
        parked = parked or self.pause_gate.reached.is_set()
        stop_out = None
        if parked:
            res = {}

            def stopper():
                res["out"] = self.cmd("stop")
            th = threading.Thread(target=stopper, name="verif-stopper", daemon=True)
            th.start()
            t0 = time.time()
            while self.sim.run_state.name != "STOPPING" and th.is_alive() and time.time() - t0 < timeout:
                time.sleep(0.0002)
            self.pause_gate.open.set()
            th.join(timeout)
            stop_out = res.get("out")
        self.pause_at = None
        self.pause_gate.open.set()
        return out, stop_out, parked

    def _kw(self, tag):
        """keyword arguments of a scheduled handler call; with prog['payload'] == 'unprintable' every event also carries a job
        object that cannot be rendered (its __repr__ and __str__ raise): what an event carries is the model's business"""
        if self.prog.get("payload") == "unprintable":
            return {"tag": tag, "job": _Unprintable()}
        return {"tag": tag}

    def stop_from_time_changed(self, k):
        """arm a subscriber of the simulator's TIME_CHANGED notification that calls stop() inside its k-th notification from
        now on (a pause requested by a listener, on the run thread, between the announcement of a time and its first event)"""
        from pydsol.core.pubsub import EventListener
        from pydsol.core.interfaces import SimulatorInterface
        h = self
        if getattr(self, "_lstop", None) is None:
            class Stopper(EventListener):
                left = 0

                def notify(self, event):
                    if self.left > 0:
                        self.left -= 1
                        if self.left == 0:
                            h.lstop_at = num(event.timestamp) if hasattr(event, "timestamp") else None
                            h.lstop_executed = len(h.hlog)
                            h.lstop_out = h.cmd("stop")
            self._lstop = Stopper()
        self.sim.remove_listener(SimulatorInterface.TIME_CHANGED_EVENT, self._lstop)
        self.sim.add_listener(SimulatorInterface.TIME_CHANGED_EVENT, self._lstop)
        self._lstop.left = k
        self.lstop_out = self.lstop_at = self.lstop_executed = None

    def update_seeds(self, replication_nr):
        """what an experiment driver does between replications"""
        self.experiment["updater"].update_seeds(self.experiment["info"].get_streams(), replication_nr)
        for (sname, _, _), d in getattr(self, "dists", {}).items():
            d.stream = self.experiment["info"].get_stream(sname)      # long-lived distributions are handed their (re-seeded) stream again

    def reset_logs(self):
        for lst in (self.hlog, self.slog, self.nlog, self.timeline, self.published):
            del lst[:]
        self.exec_count = 0

    def trace(self, first=0):
        return [(t, c) for (t, c, _, _) in self.hlog[first:]]

    def clock_writes(self):
        return [w for w in self.sim.__dict__["_verif_writes"] if w[0] == "_simulator_time"]

    def cleanup(self):
        for g in list(self.gates.values()):
            g.open.set()
        if self.pause_gate:
            self.pause_gate.open.set()
        try:
            w = self.worker()
            if w is not None and not w.is_alive() and not w.is_finalized():
                # the run thread died from an exception: the library's cleanup would wait its full 1 s time-out for it
                w.cleanup()
                return
            self.sim.cleanup()
        except Exception:
            pass


def cleanup_all():
    for s in _ALL:
        try:
            w = getattr(s, "_Simulator__worker", None)
            if w is not None:
                s.cleanup()
        except Exception:
            pass
    _ALL.clear()


# ------------------------------------------------------------------------------------------- shared judges
def check_clock_monotone(h, ctx, where, sig="clock-moved-backwards"):
    """(M2) a decrease of the clock outside initialize is observable by any handler or listener"""
    prev = None
    for name, old, new, thread, in_init in h.clock_writes():
        ctx.count("clock_writes_observed")
        if in_init:
            prev = num(new)
            continue
        if prev is not None and num(new) < prev:
            ctx.viol(sig, {**where, "from": prev, "to": num(new), "thread": thread})
            return False
        prev = num(new)
    return True


def compare_traces(ctx, got, want, where, prefix_ok=False, what="trace", h=None):
    """got/want: lists of (tag, time).  classifies the first difference"""
    want = [(t, c) for (t, c) in want if t != WARMUP]
    ctx.count("trace_events_compared", len(want))
    if got == want or (prefix_ok and got == want[:len(got)]):
        return True
    gt, wt = [t for t, _ in got], [t for t, _ in want]
    if len(set(gt)) < len(gt):
        sig = "event-executed-twice"
    elif set(wt) - set(gt):
        sig = "event-lost"
    elif set(gt) - set(wt):
        sig = "event-executed-that-should-not"
    elif gt != wt:
        sig = "events-out-of-order"
    else:
        sig = "clock-in-handler-differs-from-event-time"
    i = next((k for k, (a, b) in enumerate(zip(got, want)) if a != b), min(len(got), len(want)))
    ctx.viol(f"{what}:{sig}", {**where, "first_difference_at": i, "got": got[max(0, i - 2):i + 4], "want": want[max(0, i - 2):i + 4],
                               "n_got": len(got), "n_want": len(want)})
    return False
