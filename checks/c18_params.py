"""
C18 - input parameters always hold a valid value, addressable by their dotted key.
Monitor: (1) icontract class invariants ("value satisfies the declared constraints", "default unchanged",
"map children sorted and consistently parented") installed on the real parameter classes and evaluated at
every public call; (2) a reference parameter tree stepped in lock-step with every generated operation;
(3) a full walk of the real tree after every operation (values, defaults, identity of get(extended key),
iteration order, read-only).
"""
import math

ID = "C18"
LEVEL = "exploration"
TECHNIQUE = "runtime monitor: icontract class invariants on the real parameter classes + lock-step reference tree over generated operation histories"
RULE = ("seeded random operation sequences (12-60 ops) on trees of depth <= 4: construct under a parent (valid / "
        "invalid defaults, bad specs, duplicate keys) or detached + add, set_value with valid / out-of-range / "
        "wrong-type / NaN / inf / bool / quantity values through the object and through DSOLModel.set_parameter, "
        "get / remove by dotted key (half of the removes directly on the sub-map after the key was resolved through root and model), duplicate adds; non-trivial = the sequence contains >=1 rejected set, >=1 "
        "accepted set, >=1 rejected construction under a parent and >=1 remove or model-level round trip; distinct = "
        "canonical sequence hash")
RULE += '; half of the models are handed their parameter map through the input_parameters setter'
RULE += '; candidate values include compatibility look-alikes of options (full-width letters, micro sign, Kelvin sign) and other-case spellings'
ASSUMPTIONS = ["bool is accepted where int/float is declared (bool is a subclass of int) - either outcome is accepted",
               "a Quantity offered to a float parameter may be accepted or refused (Quantity subclasses float)",
               "keys passed to get/remove are relative to the root map (the root's own key is not part of the path)"]

KINDS = ["int", "float", "str", "bool", "quantity", "sel", "unit", "map"]
QCLS = ["Length", "Duration", "Speed", "Mass", "Energy", "Torque"]       # Energy and Torque share one SI signature: still different types


class InvariantBroken(Exception):
    pass


def plan(tier):
    n = 6000 if tier == "quick" else 120000
    return {"cases": n, "shards": 16, "timeout": 600 if tier == "quick" else 3000, "min_nontrivial": 300,
            "min": {"invariant_evaluations": 50000, "tree_walks": 50000, "set_attempts": 20000, "shards_with_icontract_invariants": 1}}


# --------------------------------------------------------------------------------------------- generation
def _val(rng, kind_hint=None):
    r = rng.random()
    k = kind_hint if (kind_hint and r < 0.62) else rng.choice(["int", "float", "str", "bool", "quantity", "nan", "inf", "none", "sel", "unit"])
    if k == "int":
        return ["int", rng.choice([0, 1, -1, 2, 3, 5, 7, 8, 10, 11, 99, 100, 101, -100, -8, -7, 10 ** 12, rng.randint(-20, 120)])]
    if k == "float":
        return ["float", rng.choice([0.0, 0.5, -0.5, 10.0, 10.000001, 99.9, 100.0, 100.1, 1e300, -1e300, rng.uniform(-20, 120)])]
    if k in ("str", "sel"):
        return ["str", rng.choice(["a", "b", "c", "", "zzz", "opt1", "opt2", "\uff41", "opt\uff11", "A"])]      # incl. look-alikes of options (full-width forms) and another case
    if k == "unit":
        return ["str", rng.choice(["m", "km", "s", "min", "h", "kg", "xx", "m/s", "km/h", "\uff4d", "k\uff4d", "\u00b5s", "\uff53", "KM", "\u212a\u0067"])]    # incl. compatibility look-alikes (full-width m, micro sign, Kelvin sign)
    if k == "bool":
        return ["bool", rng.random() < 0.5]
    if k == "quantity":
        c = rng.choice(QCLS)
        u = {"Length": ["m", "km", "mm"], "Duration": ["s", "min", "h"], "Speed": ["m/s", "km/h"], "Mass": ["kg", "g"], "Energy": ["J", "mJ"],
             "Torque": ["N.m", "lbf.ft"]}[c]
        if rng.random() < 0.08:
            return ["q", c, float("nan"), rng.choice(u)]      # not a number: inside no bounds
        if rng.random() < 0.25:
            # a value written in some unit whose SI value lies a hair above (or below) one of the bounds used by the specs
            fac = {"m": 1.0, "km": 1000.0, "mm": 0.001, "s": 1.0, "min": 60.0, "h": 3600.0, "m/s": 1.0, "km/h": 1 / 3.6, "kg": 1.0, "g": 0.001,
                   "J": 1.0, "mJ": 0.001, "N.m": 1.0, "lbf.ft": 1.3558179483314004}
            unit = rng.choice(u)
            return ["q", c, rng.choice([10.0, 1000.0, 1e9]) * (1 + rng.choice([1e-10, 3e-12, -1e-10, 1e-9 * 0.9])) / fac[unit], unit]
        return ["q", c, rng.choice([0.0, 1.0, -1.0, 5.0, 50.0, 500.0, 1e6, float("nan") if rng.random() < 0.1 else 2.5]), rng.choice(u)]
    if k == "nan":
        return ["nan"]
    if k == "inf":
        return [rng.choice(["inf", "-inf"])]
    return ["none"]


def _spec(rng, kind):
    s = {}
    if kind in ("int", "float"):
        r = rng.random()
        if r < 0.35:
            pass
        elif r < 0.9:
            lo, hi = sorted(rng.sample([0, 1, 10, 50, 100], 2))
            s["min"], s["max"] = (lo, hi) if kind == "int" else (float(lo), float(hi))
            if rng.random() < 0.25:
                # bounds need not be whole numbers, for an int parameter either (0 is not within [0.5, 10]); negative ranges
                s["min"], s["max"] = rng.choice([(0.5, 10), (2.5, 7.5), (-10, -0.5), (-7.5, 2.5), (0.5, 1.5)])
        else:
            s["min"], s["max"] = 10, 10 if rng.random() < 0.5 else 5     # illegal spec
    elif kind == "quantity":
        s["cls"] = rng.choice(QCLS)
        if rng.random() < 0.6:
            s["min"], s["max"] = 0.0, rng.choice([10.0, 1000.0, 1e9])
    elif kind == "sel":
        s["options"] = rng.choice([["a", "b", "c"], ["opt1", "opt2"], ["a"]])
    elif kind == "unit":
        s["cls"] = rng.choice(QCLS)
    return s


def gen_case(rng, tier, i):
    n = rng.randint(12, 60)
    ops = []
    maps = [""]          # plausible map paths ('' = root)
    leaves = []          # plausible leaf paths with kind
    keyn = 0
    for _ in range(n):
        r = rng.random()
        if r < 0.30 or not leaves:
            kind = rng.choice(KINDS)
            parent = rng.choice(maps)
            if parent.count(".") >= 3 and kind == "map":
                kind = "int"
            keyn += 1
            key = rng.choice(["k%d" % keyn, "k%d" % keyn, "k%d" % rng.randint(1, max(1, keyn)), "", "a.b"]) if rng.random() < 0.25 else "k%d" % keyn
            spec = _spec(rng, kind)
            hint = {"sel": "sel", "unit": "unit"}.get(kind, kind)
            default = _val(rng, hint if kind != "map" else None)
            if kind == "quantity" and default[0] == "q" and rng.random() < 0.7:
                default[1] = spec["cls"]
                default[3] = {"Length": "m", "Duration": "s", "Speed": "m/s", "Mass": "kg", "Energy": "J", "Torque": "N.m"}[spec["cls"]]
            ops.append({"op": "mk", "kind": kind, "key": key, "parent": parent, "prio": rng.choice([1, 1, 2, 2.5, 3, 0.5, 1.0]),
                        "ro": rng.random() < 0.2, "spec": spec, "default": default,
                        "how": rng.choice(["parent", "parent", "detached_add", "model_add"])})
            path = (parent + "." if parent else "") + key
            if key == "" or "." in key:
                continue        # such a construction must be refused; it is never addressable afterwards
            if kind == "map":
                maps.append(path)
            else:
                leaves.append((path, kind))
        elif r < 0.72:
            path, kind = rng.choice(leaves) if rng.random() < 0.93 else (rng.choice(maps[1:] or [""]) or "nope", "map")
            ops.append({"op": "set", "path": path, "value": _val(rng, {"sel": "sel", "unit": "unit"}.get(kind, kind)),
                        "via": rng.choice(["obj", "obj", "model"])})
        elif r < 0.80:
            ops.append({"op": "get", "path": rng.choice([p for p, _ in leaves] + maps[1:] + ["nope", "k1.nope", "nope.k1", leaves[0][0] + ".x"]), "via": rng.choice(["obj", "model"])})
        elif r < 0.88:
            ops.append({"op": "rm", "path": rng.choice([p for p, _ in leaves] + maps[1:])})
        else:
            ops.append({"op": "dupadd", "path": rng.choice([p for p, _ in leaves] + maps[1:]), "prio": rng.choice([1, 2, 3])})
    # option lists that grow after construction (its own generator: the cases of earlier rounds stay as they were): the
    # option list is the live list the parameter hands out; an option added to it is an option
    import random as _random
    r2 = _random.Random(7919 * i + len(ops))
    for path, kind in leaves:
        if kind == "sel" and r2.random() < 0.6:
            at = r2.randrange(len(ops), len(ops) + 1)
            ops.insert(at, {"op": "optadd", "path": path, "value": "late%d" % r2.randint(1, 3)})
    return {"ops": ops}


# --------------------------------------------------------------------------------------------- oracle
def _pyval(v):
    from pydsol.core import units
    t = v[0]
    if t in ("int", "float", "str", "bool"):
        return v[1]
    if t == "nan":
        return math.nan
    if t == "inf":
        return math.inf
    if t == "-inf":
        return -math.inf
    if t == "none":
        return None
    if t == "q":
        return getattr(units, v[1])(v[2], v[3])
    raise ValueError(v)


def _valid(kind, spec, value):
    """True / False / None (= either outcome is acceptable) - the *declared* constraints, nothing else"""
    from pydsol.core import units
    if kind == "map":
        return False
    if kind in ("int", "float"):
        if isinstance(value, bool):
            return None
        if kind == "int" and not isinstance(value, int):
            return False
        if kind == "float":
            if isinstance(value, units.Quantity) or isinstance(value, units.SI):
                return None
            if not isinstance(value, (int, float)):
                return False
        lo, hi = spec.get("min", -math.inf), spec.get("max", math.inf)
        return bool(lo <= value <= hi)
    if kind == "str":
        return isinstance(value, str)
    if kind == "bool":
        return isinstance(value, bool)
    if kind == "quantity":
        cls = getattr(units, spec["cls"])
        if not isinstance(value, cls):
            return False
        lo, hi = spec.get("min", -math.inf), spec.get("max", math.inf)
        return bool(lo <= value.si <= hi)
    if kind == "sel":
        return isinstance(value, str) and value in spec["options"]
    if kind == "unit":
        return isinstance(value, str) and value in getattr(units, spec["cls"])._units
    raise ValueError(kind)


def _spec_ok(kind, spec):
    if kind in ("int", "float", "quantity") and "min" in spec:
        return spec["min"] < spec["max"]
    return True


def _obj_valid(p):
    """declared-constraint check computed from the real object alone (used by the class invariants)"""
    from pydsol.core import parameters as P
    v = p.value
    if isinstance(p, P.InputParameterMap):
        return isinstance(v, dict)
    if isinstance(p, P.InputParameterInt):
        return isinstance(v, int) and p.min_value <= v <= p.max_value
    if isinstance(p, P.InputParameterFloat):
        return isinstance(v, (int, float)) and p.min_value <= v <= p.max_value
    if isinstance(p, P.InputParameterBool):
        return isinstance(v, bool)
    if isinstance(p, P.InputParameterQuantity):
        return isinstance(v, p.type) and p.min_si <= v.si <= p.max_si
    if isinstance(p, P.InputParameterSelectionList):   # also InputParameterUnit
        return isinstance(v, str) and v in p.options
    if isinstance(p, P.InputParameterStr):
        return isinstance(v, str)
    return True


_INV = {"n": 0, "defaults": {}}


def _inv_value(self):
    _INV["n"] += 1
    if not hasattr(self, "_value") or not hasattr(self, "_read_only"):
        return True
    if getattr(self, "_verif_built", False) is False:
        return True          # still inside its constructor chain (invariants fire after the base __init__)
    try:
        return _obj_valid(self)
    except AttributeError:
        return True


def _inv_default(self):
    if getattr(self, "_verif_built", False) is False:
        return True
    d = _INV["defaults"].get(id(self))
    if d is None:
        return True
    cur = self.default_value
    return cur is d[1] or cur == d[1] or (cur != cur and d[1] != d[1])


def _inv_map(self):
    from pydsol.core import parameters as P
    if not isinstance(self, P.InputParameterMap) or not isinstance(getattr(self, "_value", None), dict):
        return True
    pr = [c.display_priority for c in self._value.values()]
    return pr == sorted(pr) and all(c.parent is self and c.key == k for k, c in self._value.items())


def _inv_all(self):
    return _inv_value(self) and _inv_default(self) and _inv_map(self)


def shard_setup(tier, ctx):
    """icontract class invariants cost ~10 us per public call (the tree walk makes hundreds per operation), so
    they are installed in every fourth shard only; the other shards rely on the walk, which asserts the same facts"""
    if ctx.shard % 4 != 0:
        return
    import icontract
    from pydsol.core import parameters as P
    icontract.invariant(_inv_all, error=InvariantBroken)(P.InputParameter)
    _INV["installed"] = True
    ctx.count("shards_with_icontract_invariants")


class _Node:
    def __init__(self, kind, key, prio, ro, spec, default, obj):
        self.kind, self.key, self.prio, self.ro, self.spec = kind, key, float(prio), ro, spec
        self.default = default
        self.value = default
        self.obj = obj
        self.children = []      # ordered list of _Node (maps only)

    def find(self, path):
        if path == "":
            return self
        head, _, rest = path.partition(".")
        for c in self.children:
            if c.key == head:
                if rest == "":
                    return c
                return c.find(rest) if c.kind == "map" else None
        return None

    def insert(self, node):
        self.children.append(node)
        self.children.sort(key=lambda c: c.prio)     # stable: ties keep insertion order


def _same_value(a, b):
    if a is b:
        return True
    try:
        if a != a and b != b:
            return True
        return type(a) is type(b) and a == b
    except Exception:
        return False


def _build(op, parent_obj):
    from pydsol.core import parameters as P
    from pydsol.core import units
    kind, key, prio, ro, spec = op["kind"], op["key"], op["prio"], op["ro"], op["spec"]
    kw = {"parent": parent_obj}
    d = _pyval(op["default"])
    if kind == "map":
        return P.InputParameterMap(key, "n_" + key, prio, **kw)
    kw["read_only"] = ro
    if kind == "int":
        if "min" in spec:
            kw.update(min_value=spec["min"], max_value=spec["max"])
        return P.InputParameterInt(key, "n_" + key, d, prio, **kw)
    if kind == "float":
        if "min" in spec:
            kw.update(min_value=spec["min"], max_value=spec["max"])
        return P.InputParameterFloat(key, "n_" + key, d, prio, **kw)
    if kind == "str":
        return P.InputParameterStr(key, "n_" + key, d, prio, **kw)
    if kind == "bool":
        return P.InputParameterBool(key, "n_" + key, d, prio, **kw)
    if kind == "quantity":
        if "min" in spec:
            kw.update(min_si=spec["min"], max_si=spec["max"])
        return P.InputParameterQuantity(key, "n_" + key, d, prio, **kw)
    if kind == "sel":
        return P.InputParameterSelectionList(key, "n_" + key, list(spec["options"]), d, prio, **kw)
    if kind == "unit":
        return P.InputParameterUnit(key, "n_" + key, getattr(units, spec["cls"]), d, prio, **kw)
    raise ValueError(kind)


def _default_valid(op):
    kind, spec = op["kind"], op["spec"]
    if kind == "map":
        return True
    d = _pyval(op["default"])
    if kind == "quantity":
        # the declared quantity type IS the type of the default: any Quantity default is legal
        from pydsol.core import units
        if not isinstance(d, units.Quantity):
            return False
        lo, hi = spec.get("min", -math.inf), spec.get("max", math.inf)
        return bool(lo <= d.si <= hi)
    return _valid(kind, spec, d)


def run_case(case, ctx):
    from pydsol.core.model import DSOLModel
    from pydsol.core.simulator import DEVSSimulatorFloat

    class M(DSOLModel):
        def construct_model(self):
            pass

    model = M(DEVSSimulatorFloat("c18"))
    if len(case["ops"]) % 2:
        # the model is handed a parameter map built elsewhere (the documented setter): from then on that map is the model's
        from pydsol.core.parameters import InputParameterMap
        model.input_parameters = InputParameterMap("root", "parameters", 1)
        ctx.count("models_handed_a_map_through_the_setter")
    root_obj = model.input_parameters
    root_obj._verif_built = True
    root = _Node("map", root_obj.key, 1, True, {}, None, root_obj)
    flags = {"rej_set": 0, "acc_set": 0, "rej_mk": 0, "rm_or_model": 0}
    inv0 = _INV["n"]

    def walk(opi, op):
        """full audit of the real tree against the reference tree"""
        ctx.count("tree_walks")
        stack = [(root, root_obj, "")]
        while stack:
            node, obj, path = stack.pop()
            real_children = list(obj.value.items())
            want_keys = [c.key for c in node.children]
            if [k for k, _ in real_children] != want_keys:
                ctx.viol("children-order-or-membership", {"op_index": opi, "op": op, "map": path,
                                                          "got": [k for k, _ in real_children], "want": want_keys})
                return False
            for c, (k, cobj) in zip(node.children, real_children):
                cpath = (path + "." if path else "") + k
                if cobj is not c.obj:
                    ctx.viol("child-identity", {"op_index": opi, "op": op, "path": cpath})
                    return False
                try:
                    found = root_obj.get(cpath)
                except InvariantBroken:
                    raise
                except Exception as e:
                    ctx.viol(f"get-existing-raises", {"op_index": opi, "op": op, "path": cpath, "exc": repr(e)})
                    return False
                if found is not cobj:
                    ctx.viol("get-by-extended-key", {"op_index": opi, "op": op, "path": cpath})
                    return False
                if cobj.extended_key() != root_obj.key + "." + cpath:
                    ctx.viol("extended-key-text", {"op_index": opi, "path": cpath, "got": cobj.extended_key()})
                    return False
                if c.kind == "map":
                    stack.append((c, cobj, cpath))
                    continue
                ctx.count("value_audits")
                if not _same_value(cobj.value, c.value):
                    ctx.viol("value-differs-from-model", {"op_index": opi, "op": op, "path": cpath, "kind": c.kind,
                                                          "got": repr(cobj.value), "want": repr(c.value)})
                    return False
                if not _same_value(cobj.default_value, c.default):
                    ctx.viol("default-changed", {"op_index": opi, "op": op, "path": cpath, "got": repr(cobj.default_value),
                                                 "want": repr(c.default)})
                    return False
                ok = _valid(c.kind, c.spec, cobj.value)
                if ok is False or not _obj_valid(cobj):
                    ctx.viol("invalid-value-held", {"op_index": opi, "op": op, "path": cpath, "kind": c.kind,
                                                    "spec": c.spec, "value": repr(cobj.value)})
                    return False
        return True

    for opi, op in enumerate(case["ops"]):
        name = op["op"]
        try:
            if name == "mk":
                parent = root.find(op["parent"])
                if parent is None or parent.kind != "map":
                    continue
                key_ok = isinstance(op["key"], str) and op["key"] != "" and "." not in op["key"]
                dup = any(c.key == op["key"] for c in parent.children)
                should = key_ok and _spec_ok(op["kind"], op["spec"]) and _default_valid(op)
                how = op["how"] if parent is root or op["how"] != "model_add" else "detached_add"
                ctx.count("constructions")
                obj = None
                err = None
                try:
                    obj = _build(op, parent.obj if how == "parent" else None)
                except InvariantBroken:
                    raise
                except Exception as e:
                    err = e
                if should is True and err is not None and not (how == "parent" and dup):
                    ctx.viol("valid-construction-rejected", {"op_index": opi, "op": op, "exc": repr(err)})
                    return
                if should is False and obj is not None:
                    ctx.viol("invalid-construction-accepted", {"op_index": opi, "op": op})
                    return
                if obj is not None:
                    obj._verif_built = True
                    _INV["defaults"][id(obj)] = (obj, _pyval(op["default"]) if op["kind"] != "map" else None)
                    if op["kind"] != "map":
                        # default of the real object is what was passed in
                        _INV["defaults"][id(obj)] = (obj, obj.default_value)
                if err is not None:
                    if how == "parent":
                        flags["rej_mk"] += 1
                    if not walk(opi, op):       # a rejected construction must leave the parent untouched
                        return
                    continue
                if how != "parent":
                    try:
                        if how == "model_add":
                            model.add_parameter(obj)
                        else:
                            parent.obj.add(obj)
                        added = True
                    except InvariantBroken:
                        raise
                    except Exception as e:
                        added = False
                        if not dup:
                            ctx.viol("add-rejected", {"op_index": opi, "op": op, "exc": repr(e)})
                            return
                    if dup and added:
                        ctx.viol("duplicate-key-accepted", {"op_index": opi, "op": op})
                        return
                    if not added:
                        if not walk(opi, op):
                            return
                        continue
                elif dup:
                    ctx.viol("duplicate-key-accepted", {"op_index": opi, "op": op})
                    return
                if op["kind"] == "quantity":
                    # the declared quantity type is the type of the default value
                    op = dict(op, spec=dict(op["spec"], cls=type(obj.default_value).__name__))
                node = _Node(op["kind"], op["key"], op["prio"], op["ro"] if op["kind"] != "map" else True, op["spec"],
                             obj.default_value if op["kind"] != "map" else None, obj)
                parent.insert(node)
            elif name == "set":
                node = root.find(op["path"])
                if node is None or node is root:
                    continue
                v = _pyval(op["value"])
                ok = _valid(node.kind, node.spec, v)
                if node.ro and node.kind != "map":
                    ok = False
                ctx.count("set_attempts")
                err = None
                try:
                    if op["via"] == "model":
                        model.set_parameter(op["path"], v)
                        flags["rm_or_model"] += 1
                    else:
                        node.obj.set_value(v)
                except InvariantBroken:
                    raise
                except Exception as e:
                    err = e
                if err is None:
                    if ok is False:
                        what = "read-only-changed" if (node.ro and node.kind != "map") else "invalid-set-accepted"
                        ctx.viol(f"{what}:{node.kind}", {"op_index": opi, "op": op, "spec": node.spec, "now": repr(node.obj.value)})
                        return
                    node.value = v
                    flags["acc_set"] += 1
                    if op["via"] == "model":
                        got = model.get_parameter(op["path"])
                        ctx.count("model_roundtrips")
                        if not _same_value(got, v):
                            ctx.viol("model-roundtrip", {"op_index": opi, "op": op, "got": repr(got)})
                            return
                else:
                    if ok is True:
                        ctx.viol(f"valid-set-rejected:{'model' if op['via'] == 'model' else 'obj:' + node.kind}:{type(err).__name__}",
                                 {"op_index": opi, "op": op, "spec": node.spec, "exc": repr(err)})
                        return
                    flags["rej_set"] += 1
            elif name == "optadd":
                node = root.find(op["path"])
                if node is None or node is root or node.kind != "sel" or op["value"] in node.obj.options:
                    continue
                live = node.obj.options
                live.append(op["value"])
                node.spec = dict(node.spec, options=list(node.spec["options"]) + [op["value"]])
                ctx.count("options_added_after_construction")
                if node.ro:
                    continue
                try:
                    node.obj.set_value(op["value"])
                except InvariantBroken:
                    raise
                except Exception as e:
                    ctx.viol(f"valid-set-rejected:obj:sel-option-added-later:{type(e).__name__}", {"op_index": opi, "op": op, "options": list(live), "exc": repr(e)})
                    return
                node.value = op["value"]
                if node.obj.value != op["value"]:
                    ctx.viol("accepted-set-not-stored:sel-option-added-later", {"op_index": opi, "op": op, "now": repr(node.obj.value)})
                    return
            elif name == "get":
                node = root.find(op["path"])
                ctx.count("gets")
                try:
                    got = model.get_parameter(op["path"]) if op["via"] == "model" else root_obj.get(op["path"])
                except InvariantBroken:
                    raise
                except Exception as e:
                    if node is not None and node is not root:
                        ctx.viol("get-existing-raises", {"op_index": opi, "op": op, "exc": repr(e)})
                        return
                    continue
                if node is None:
                    ctx.viol("get-absent-returns", {"op_index": opi, "op": op, "got": repr(got)})
                    return
                if op["via"] == "model":
                    want = node.obj.value
                    if got is not want and not _same_value(got, want):
                        ctx.viol("model-get-value", {"op_index": opi, "op": op})
                        return
                elif got is not node.obj:
                    ctx.viol("get-by-extended-key", {"op_index": opi, "op": op})
                    return
            elif name == "rm":
                node = root.find(op["path"])
                if node is None or node is root:
                    continue
                ppath = op["path"].rpartition(".")[0]
                parent = root.find(ppath)
                if opi % 5 == 3 and node.kind != "map" and not _INV.get("installed"):
                    # (not in the shards that carry the class invariants: between the two calls the parameter sits in two
                    # maps, which the invariants - rightly - do not accept as a tree)
                    # a move: the parameter is added to another map first and then removed from the map it was in
                    def _maps(n):
                        yield n
                        for c in n.children:
                            if c.kind == "map":
                                yield from _maps(c)
                    target = next((m_ for m_ in _maps(root) if m_ is not parent and all(c.key != node.key for c in m_.children)), None)
                    if target is not None:
                        ctx.count("moves_to_another_map")
                        try:
                            target.obj.add(node.obj)
                            got = parent.obj.remove(node.key)
                        except InvariantBroken:
                            raise
                        except Exception as e:
                            ctx.viol("move:add-then-remove-raises", {"op_index": opi, "op": op, "exc": repr(e)})
                            return
                        if got is not node.obj:
                            ctx.viol("remove-returns-other", {"op_index": opi, "op": op, "during": "a move"})
                            return
                        parent.children.remove(node)
                        target.insert(node)
                        flags["rm_or_model"] += 1
                        if not walk(opi, op):
                            return
                        continue
                if opi % 5 == 3 and node.kind == "map":
                    # a sub-map (with everything below it) is taken out of its map and put into another one: remove, then add.
                    # Every parameter below it is then found - and names itself - under the new path
                    def _maps2(n):
                        yield n
                        for c in n.children:
                            if c.kind == "map" and c is not node:
                                yield from _maps2(c)
                    target = next((m_ for m_ in _maps2(root) if m_ is not parent and m_ is not node and all(c.key != node.key for c in m_.children)), None)
                    if target is not None:
                        ctx.count("sub_maps_moved_to_another_map")
                        try:
                            got = parent.obj.remove(node.key)
                            target.obj.add(got)
                        except InvariantBroken:
                            raise
                        except Exception as e:
                            ctx.viol("move:remove-then-add-raises", {"op_index": opi, "op": op, "exc": repr(e)})
                            return
                        if got is not node.obj:
                            ctx.viol("remove-returns-other", {"op_index": opi, "op": op, "during": "a move of a sub-map"})
                            return
                        parent.children.remove(node)
                        target.insert(node)
                        flags["rm_or_model"] += 1
                        if not walk(opi, op):
                            return
                        continue
                ctx.count("removes")
                direct = opi % 2 == 0 and parent is not root
                try:
                    if direct:
                        # the sub-map is a public object too: resolve the dotted key through the ancestors first, then
                        # change the sub-map directly - the ancestors must not keep answering from what they resolved before
                        root_obj.get(op["path"])
                        try:
                            model.get_parameter(op["path"])
                        except Exception:
                            pass
                        ctx.count("removes_directly_on_a_sub_map")
                        got = parent.obj.remove(node.key)
                    else:
                        got = root_obj.remove(op["path"])
                except InvariantBroken:
                    raise
                except Exception as e:
                    ctx.viol("remove-existing-raises", {"op_index": opi, "op": op, "exc": repr(e)})
                    return
                if got is not node.obj:
                    ctx.viol("remove-returns-other", {"op_index": opi, "op": op})
                    return
                parent.children.remove(node)
                flags["rm_or_model"] += 1
                try:
                    root_obj.get(op["path"])
                    ctx.viol("removed-still-retrievable", {"op_index": opi, "op": op, "removed_directly_on_sub_map": direct})
                    return
                except KeyError:
                    pass
                try:
                    model.get_parameter(op["path"])
                    ctx.viol("removed-still-retrievable:model", {"op_index": opi, "op": op, "removed_directly_on_sub_map": direct})
                    return
                except InvariantBroken:
                    raise
                except Exception:
                    pass
            elif name == "dupadd":
                node = root.find(op["path"])
                if node is None or node is root:
                    continue
                parent = root.find(op["path"].rpartition(".")[0])
                from pydsol.core import parameters as P
                twin = P.InputParameterInt(node.key, "twin", 1, op["prio"])
                twin._verif_built = True
                ctx.count("duplicate_adds")
                try:
                    parent.obj.add(twin)
                    ctx.viol("duplicate-key-accepted", {"op_index": opi, "op": op})
                    return
                except InvariantBroken:
                    raise
                except Exception:
                    pass
                # ... and a parameter that lives in ANOTHER map under the same key is offered here: refused as well, and the
                # offered parameter stays where it was (the tree walk below compares every extended key)
                def _all(n):
                    for c in n.children:
                        yield n, c
                        if c.kind == "map":
                            yield from _all(c)
                other = next((c for par, c in _all(root) if c.key == node.key and c is not node and par is not parent), None)
                if other is not None:
                    ctx.count("adds_of_a_parameter_living_in_another_map")
                    try:
                        parent.obj.add(other.obj)
                        ctx.viol("duplicate-key-accepted", {"op_index": opi, "op": op, "offered": "a parameter of another map"})
                        return
                    except InvariantBroken:
                        raise
                    except Exception:
                        pass
        except InvariantBroken as e:
            ctx.viol("class-invariant-broken", {"op_index": opi, "op": op, "exc": str(e)[:300]})
            return
        # shards that carry the icontract invariants audit the whole tree every 6th operation and at the end
        # (the invariants guard every call in between); all other shards audit after every operation
        if (not _INV.get("installed") or opi % 6 == 5 or opi == len(case["ops"]) - 1) and not walk(opi, op):
            return
    ctx.count("invariant_evaluations", _INV["n"] - inv0)
    _INV["defaults"].clear()
    if flags["rej_set"] and flags["acc_set"] and flags["rej_mk"] and flags["rm_or_model"]:
        ctx.nontrivial = True
