"""
C09 - Tally and Counter report the textbook statistics of the registered observations.
Monitor: every public getter (both bias flags, five alphas) of the real objects is called after operations
and compared with exact rational arithmetic on the same observations (vlib.exactstats); rejected inputs
must leave every getter bit-identical; initialize must leave no residue.  Plain and event-publishing
variants, with a subscriber attached (so register itself evaluates every getter), fed through register
and through notify.
"""
import math

ID = "C09"
LEVEL = "exploration"
TECHNIQUE = "runtime monitor: all getters after every operation vs exact rational (Fraction) oracle with conditioning-aware tolerances"
RULE = ("seeded random observation sequences from input classes {small ints, mixed-magnitude floats 1e-6..1e9, "
        "offset 1e3..1e12 with spread 1e-3..1e2, all-equal, two-valued, near-equal} with n in {0..5,10,50,300,3000}, "
        "interleaved initialize() calls and rejected inputs (NaN, str, None; float for Counter), on Tally / "
        "EventBasedTally (with and without subscriber, register and notify entry points) and Counter / "
        "EventBasedCounter; getters judged after every operation for the first 64 operations and at sparse "
        "checkpoints afterwards (20% 'sparse' cases: one getter asked only after k observations, after initialize + k other observations, ...); non-trivial = n >= 4 observations with non-zero variance and >= 1 rejected input "
        "or initialize in the sequence, or an all-equal sequence with n >= 2; distinct = canonical sequence hash")
RULE += '; in a quarter of the subscriber-less cases the statistic is replaced by a pickle / deepcopy / copy of itself at a random point and after re-initialisations'
RULE += "; value class 'subtypes': bool, IntEnum members, instances of int and float subclasses"
ASSUMPTIONS = ["observations are finite with |x| in {0} or [1e-6, 1e12]",
               "unbiased skewness follows the SAS/SPSS/Excel formula the docstring names: g1*sqrt(n(n-1))/(n-2)",
               "a statistic whose conditioning-aware tolerance exceeds 1e-3 is judged for totality/NaN-structure only",
               "confidence_interval(0.0) is the whole clipped range [min, max]; alpha is documented inclusive"]

ALPHAS = [0.0, 1e-300, 1e-17, 0.01, 0.05, 0.5, 1.0]
_ratio = {"max": 0.0}


def plan(tier):
    n = 16000 if tier == "quick" else 400000
    return {"cases": n, "shards": 16, "timeout": 900 if tier == "quick" else 3600, "min_nontrivial": 500,
            "min": {"getter_comparisons": 200000, "rejected_inputs": 2000, "zero_variance_states": 500}}


def gen_case(rng, tier, i):
    cls = rng.choice(["Tally", "EventBasedTally", "EventBasedTally+sub", "EventBasedTally+sub", "Counter", "EventBasedCounter+sub",
                      "EventBasedTally+resub", "EventBasedCounter+resub"])
    entry = rng.choice(["register", "notify"]) if cls.startswith("EventBased") else "register"
    n = rng.choice([0, 1, 2, 3, 4, 5, 5, 10, 10, 50, 50, 300] + ([3000] if rng.random() < 0.08 else [12]))
    klass = rng.choice(["int", "mixed", "offset", "equal", "two", "near", "huge", "ulp", "subtypes"])
    if cls.startswith("Counter") or cls.startswith("EventBasedCounter"):
        vals = [rng.randint(-1000, 1000) for _ in range(n)]
    elif klass == "int":
        vals = [rng.randint(-20, 20) for _ in range(n)]
    elif klass == "subtypes":
        # legal numbers that are not plain int / float objects: bool, IntEnum members, instances of int and float subclasses
        vals = [rng.choice([{"sub": "bool", "v": rng.randint(0, 1)}, {"sub": "intenum", "v": rng.randint(1, 3)}, {"sub": "intsub", "v": rng.randint(-9, 9)},
                            {"sub": "floatsub", "v": rng.choice([0.5, -2.25, 7.0, 1e-3])}, rng.randint(-5, 5), rng.choice([0.25, 1.5])]) for _ in range(n)]
    elif klass == "mixed":
        vals = [rng.choice([-1, 1]) * 10 ** rng.uniform(-6, 9) for _ in range(n)]
    elif klass == "offset":
        off = 10 ** rng.uniform(3, 12)
        sp = 10 ** rng.uniform(-3, 2)
        vals = [off + rng.uniform(-sp, sp) for _ in range(n)]
    elif klass == "ulp":
        # unequal values whose spread is lost in the running moments (neighbouring floats; differences whose square underflows):
        # the variance comes out as exactly 0.0 although min != max
        base_ = rng.choice([[1 + 2 ** -52, 1 + 2 ** -51, 1.0], [0.0, 1e-170, 2e-170], [1e9, 1e9 + 2 ** -23], [-5.0, -5.0 + 2 ** -50]])
        vals = [rng.choice(base_) for _ in range(n)]
    elif klass == "huge":
        # finite values far apart: third and fourth powers of the differences leave the float range (only totality and the
        # first-order statistics are judged there)
        vals = [rng.choice([1.0, 2.5, -4.0, 3.5e90, -1e120, 1e150, 7e76, 2e77]) for _ in range(n)]
    elif klass == "equal":
        v = rng.choice([0.0, 1.0, 5, -3.25, 1e9, 0.1, 1e-6, 7.0])
        vals = [v] * n
    elif klass == "two":
        a, b = rng.choice([(0.0, 1.0), (1.0, 2.0), (-5, 5), (1e6, 1e6 + 1), (0.1, 0.2)])
        vals = [rng.choice([a, b]) for _ in range(n)]
    else:
        v = rng.choice([1.0, 1000.0, 0.1])
        vals = [v + rng.choice([0.0, 0.0, 0.0, v * 2 ** -40]) for _ in range(n)]
    ops = []
    for v in vals:
        r = rng.random()
        if r < 0.04:
            ops.append(["bad", rng.choice(["nan", "str", "none", "float_for_counter", "numstr", "decimal", "hugeint"])])
        elif r < 0.055:
            ops.append(["init"])
        ops.append(["obs", v])
    if rng.random() < 0.3:
        ops.append(["bad", rng.choice(["nan", "str", "none"])])
    if klass == "equal" and n >= 2 and rng.random() < 0.5:
        # equal data again after a reset
        ops += [["init"]] + [["obs", vals[0]]] * rng.randint(2, 4)
    case = {"cls": cls, "entry": entry, "ops": ops, "klass": klass}
    obs = [o for o in ops if o[0] == "obs"]
    if len(obs) >= 4 and rng.random() < 0.2:
        # 'sparse' mode: one getter, asked only at a few moments - equally many observations before and after a
        # re-initialisation with nothing queried in between (a memoised answer must not survive new data or a reset)
        k = min(len(obs) // 2, 12)
        counterish = "Counter" in cls
        names = ["n", "count"] if counterish else ["n", "min", "max", "sum", "mean", "variance_b", "variance_u", "stdev_b", "stdev_u", "skewness_b",
                                                   "skewness_u", "kurtosis_b", "kurtosis_u", "excess_b", "excess_u"] + [f"ci_{a}" for a in ALPHAS[2:6]]
        case["sparse"] = rng.choice(names)
        case["ops"] = obs[:k] + [["q"], ["init"]] + obs[-k:] + [["q"], obs[0], ["q"], ["init"]] + obs[:k] + [["q"]]
    if cls.endswith("+sub") and rng.random() < 0.3:
        # a subscriber fails once inside one of the statistic's own notifications: whether that observation counts is read off
        # the statistic (both readings are fine), every later observation counts as always
        idxs = [k for k, o in enumerate(case["ops"]) if o[0] == "obs"]
        if idxs:
            case["ops"].insert(rng.choice(idxs[:max(1, len(idxs) - 1)]), ["subfail"])
    if "+" not in cls and rng.random() < 0.25:
        # the statistic object is replaced by a copy of itself (pickle round trip, deepcopy, copy) - also while it is still
        # empty or just re-initialised - and the copy carries on
        ops2 = []
        for o in case["ops"]:
            ops2.append(o)
            if o[0] == "init" and rng.random() < 0.6:
                ops2.append(["clone", rng.choice(["pickle", "deepcopy", "copy"])])
        ops2.insert(0 if rng.random() < 0.5 else rng.randint(0, len(ops2)), ["clone", rng.choice(["pickle", "pickle", "deepcopy", "copy"])])
        case["ops"] = ops2
    return case


def _getters_tally(t):
    g = {"n": t.n(), "min": t.min(), "max": t.max(), "sum": t.sum(), "mean": t.mean(),
         "variance_b": t.variance(), "variance_u": t.variance(False), "stdev_b": t.stdev(), "stdev_u": t.stdev(False),
         "skewness_b": t.skewness(), "skewness_u": t.skewness(False), "kurtosis_b": t.kurtosis(),
         "kurtosis_u": t.kurtosis(False), "excess_b": t.excess_kurtosis(), "excess_u": t.excess_kurtosis(False)}
    for a in ALPHAS:
        g[f"ci_{a}"] = t.confidence_interval(a)
    return g


_FOREIGN = {}


def _foreign(name):
    """an event type of another class that merely has the same name as a statistics data event"""
    if name not in _FOREIGN:
        from pydsol.core.pubsub import EventType
        ns = {}
        exec(f"class C09Sensor_{name}:\n    T = EventType({name!r})\n", {"EventType": EventType}, ns)
        _FOREIGN[name] = ns[f"C09Sensor_{name}"].T
    return _FOREIGN[name]


def _safe_getters(ctx, t, counter, where, only=None):
    """call every getter individually so that one raising does not hide the others"""
    from vlib.base import fx
    out = {}
    if counter:
        calls = {"n": t.n, "count": t.count}
    else:
        calls = {"n": t.n, "min": t.min, "max": t.max, "sum": t.sum, "mean": t.mean,
                 "variance_b": t.variance, "variance_u": lambda: t.variance(False), "stdev_b": t.stdev,
                 "stdev_u": lambda: t.stdev(False), "skewness_b": t.skewness, "skewness_u": lambda: t.skewness(False),
                 "kurtosis_b": t.kurtosis, "kurtosis_u": lambda: t.kurtosis(False), "excess_b": t.excess_kurtosis,
                 "excess_u": lambda: t.excess_kurtosis(False)}
        for a in ALPHAS:
            calls[f"ci_{a}"] = (lambda a=a: t.confidence_interval(a))
    for name, fn in calls.items():
        if only is not None and name != only:
            continue
        try:
            out[name] = fn()
        except Exception as e:
            g = name.split("_")[0] if not name.startswith("ci_") else ("ci_alpha0" if name == "ci_0.0" else "ci")
            ctx.viol(f"getter-raises:{g}:{type(e).__name__}", {**where, "getter": name, "exc": repr(e)})
            out[name] = ("raised", type(e).__name__)
    return out


from vlib.subtypes import materialize as _materialize


def _unbool(g):
    """min()/max() hand back the observed object itself: a bool observation is the number 0 or 1"""
    if isinstance(g, tuple):
        return tuple(_unbool(x) for x in g)
    return int(g) if isinstance(g, bool) else g


def run_case(case, ctx):
    if len(case["ops"]) % 8 == 3:
        import logging
        from vlib.base import library_loggers_at
        ctx.count("cases_with_the_library_loggers_at_DEBUG")
        with library_loggers_at(logging.DEBUG):
            return _run_case(case, ctx)
    return _run_case(case, ctx)


def _run_case(case, ctx):
    from pydsol.core import statistics as S
    from pydsol.core.pubsub import Event, EventListener
    from pydsol.core.interfaces import StatEvents
    from vlib.exactstats import ExactTally, close
    from vlib.base import fx
    counter = "Counter" in case["cls"]
    cname = case["cls"].split("+")[0]
    t = getattr(S, cname)("c09")
    published = []
    if case["cls"].endswith("+sub"):
        class Sub(EventListener):
            fail_next = False

            def notify(self, event):
                published.append(event.event_type)
                if self.fail_next:
                    self.fail_next = False
                    raise RuntimeError("a subscriber of the statistic failed")
        sub = Sub()
        for et in (StatEvents.OBSERVATION_ADDED_EVENT, StatEvents.N_EVENT, StatEvents.MEAN_EVENT, StatEvents.COUNT_EVENT,
                   StatEvents.POPULATION_SKEWNESS_EVENT, StatEvents.SAMPLE_KURTOSIS_EVENT, StatEvents.INITIALIZED_EVENT):
            t.add_listener(et, sub)
    resub = None
    if case["cls"].endswith("+resub"):
        # a subscriber of INITIALIZED that registers a baseline observation from inside the notification (re-entrant):
        # made after the reset, so it counts
        class Resub(EventListener):
            active = False

            def notify(self, event):
                if self.active:
                    t.register(3)
        resub = Resub()
        t.add_listener(StatEvents.INITIALIZED_EVENT, resub)
    ex = ExactTally()
    csum, cn = 0, 0
    nobs = rej = inits = 0
    zero_var_seen = False
    nops = len(case["ops"])
    for opi, op in enumerate(case["ops"]):
        where = {"op_index": opi, "op": op, "cls": case["cls"], "entry": case["entry"], "n_before": ex.n if not counter else cn}
        if op[0] == "subfail":
            sub.fail_next = True
            continue
        if op[0] == "obs":
            v = _materialize(op[1])
            armed = case["cls"].endswith("+sub") and sub.fail_next
            try:
                if case["entry"] == "notify":
                    t.notify(Event(StatEvents.DATA_EVENT, v))
                else:
                    t.register(v)
            except Exception as e:
                if not (armed and isinstance(e, RuntimeError)):
                    ctx.viol(f"register-raises:{type(e).__name__}", {**where, "exc": repr(e)})
                    return
            if armed:
                ctx.count("observations_during_which_a_subscriber_failed")
                sub.fail_next = False
                if t.n() == (cn if counter else ex.n):
                    continue        # read as 'not registered'
            if counter:
                csum += v
                cn += 1
            else:
                ex.add(v)
            nobs += 1
        elif op[0] == "init":
            if resub is not None:
                resub.active = True
                ctx.count("re-entrant_baselines_from_INITIALIZED")
            try:
                t.initialize()
            except Exception as e:
                ctx.viol(f"initialize-raises:{type(e).__name__}", {**where, "exc": repr(e)})
                return
            ex.reset()
            csum, cn = 0, 0
            if resub is not None:
                resub.active = False
                if counter:
                    csum, cn = 3, 1
                else:
                    ex.add(3)
            inits += 1
        elif op[0] == "q":
            pass
        elif op[0] == "clone":
            import copy, pickle
            ctx.count("statistic_replaced_by_a_copy_of_itself")
            try:
                t = pickle.loads(pickle.dumps(t)) if op[1] == "pickle" else copy.deepcopy(t) if op[1] == "deepcopy" else copy.copy(t)
            except Exception as e:
                ctx.viol(f"copy-raises:{op[1]}:{type(e).__name__}", {**where, "exc": repr(e)})
                return
        else:
            kind = op[1]
            if (kind == "float_for_counter" and not counter) or (kind == "hugeint" and counter):
                continue        # (an int of any size is a valid counter increment; one beyond the float range is no tally observation)
            import decimal
            bad = {"nan": math.nan, "str": "x", "none": None, "float_for_counter": 2.5, "numstr": "2.5" if not counter else "3",
                   "decimal": decimal.Decimal("1.5") if not counter else decimal.Decimal(2), "hugeint": 10 ** 400}[kind]
            if counter and kind == "nan":
                bad = math.nan      # a float: must be refused by the counter as a non-int
            before = fx(list(_safe_getters(ctx, t, counter, where).values()))
            ctx.count("rejected_inputs")
            try:
                if case["entry"] == "notify":
                    t.notify(Event(StatEvents.DATA_EVENT, bad))
                else:
                    t.register(bad)
                ctx.viol(f"invalid-observation-accepted:{kind}", where)
                return
            except Exception:
                pass
            if case["entry"] == "notify":
                # a notification that is not a data event for this statistic is an invalid observation as well
                for what, ev in (("weight-event", Event(StatEvents.WEIGHT_DATA_EVENT, 3)), ("tuple-content", Event(StatEvents.DATA_EVENT, (1, 2))),
                                 ("foreign-type-of-the-same-name", Event(_foreign("DATA_EVENT"), 1000))):
                    ctx.count("malformed_notifications")
                    try:
                        t.notify(ev)
                        ctx.viol(f"invalid-observation-accepted:notify:{what}", where)
                        return
                    except Exception:
                        pass
            after = fx(list(_safe_getters(ctx, t, counter, where).values()))
            if before != after:
                ctx.viol("rejected-input-changed-getters", {**where, "before": before, "after": after})
                return
            rej += 1
            continue
        # ---- judge the getters
        sparse = case.get("sparse")
        if sparse:
            if op[0] != "q":
                continue
            ctx.count("sparse_queries")
        elif opi >= 64 and opi != nops - 1 and (opi % 97) != 0:
            continue
        got = _safe_getters(ctx, t, counter, where, only=sparse)
        if counter:
            ctx.count("getter_comparisons", len(got))
            if got.get("n", cn) != cn or got.get("count", csum) != csum:
                ctx.viol("counter-value", {**where, "got": got, "want": {"n": cn, "count": csum}})
                return
            continue
        want = ex.expected(ALPHAS) if case.get("klass") != "huge" else ex.expected_first_order(ALPHAS)
        if ex.n >= 2 and ex.central()[1] == 0:
            zero_var_seen = True
            ctx.count("zero_variance_states")
        for name, (w, tol) in want.items():
            if name not in got:
                continue
            if case.get("klass") == "huge" and name not in ("n", "min", "max", "sum", "mean"):
                tol = "any"         # beyond the float range of the higher moments: the query must answer (a value, inf or NaN), no more
            g = got[name]
            if isinstance(g, tuple) and g and g[0] == "raised":
                return
            if case.get("klass") == "subtypes":
                g = _unbool(g)
            ctx.count("getter_comparisons")
            if tol is None:
                ctx.count("ill_conditioned_totality_only")
            if not close(g, w, tol):
                base = name.split("_")[0]
                nanmis = (isinstance(w, float) and (w != w) != (isinstance(g, float) and g != g))
                ctx.viol(f"getter-value:{base}:{'nan-structure' if nanmis else 'tolerance'}",
                         {**where, "getter": name, "got": fx(g), "want": fx(w), "tol": tol, "n": ex.n})
                return
            if tol not in (None, 0) and isinstance(w, float) and w == w and tol > 0:
                r = abs(g - w) / tol
                if r > _ratio["max"]:
                    _ratio["max"] = r
                    ctx.seen("max_error_over_tolerance_by_shard", f"{name}:{r:.3f}")
    ctx.count("observations", nobs)
    if counter:
        ctx.nontrivial = nobs >= 4 and (rej + inits) >= 1
    else:
        ctx.nontrivial = (ex.n >= 4 and ex.central()[1] != 0 and (rej + inits) >= 1) or (zero_var_seen)
