"""
C17 - unit conversion is faithful for every declared unit of every quantity.
Monitor: exhaustive sweep over (class, unit, value) and (class, unit, unit2) on the real classes with
value*factor as the oracle (bit-exact), display/description/alias/base-unit table audits, a compound-unit
composer that recomputes every compound spelling from the declared units of other quantities, and a
fresh-interpreter probe of the module's public name list.
"""
import itertools
import math
import re
import subprocess
import sys

ID = "C17"
LEVEL = "exploration"
TECHNIQUE = "runtime monitor: exhaustive (class, unit, value) sweep against value*factor (bit-exact), compound-unit recomposition, fresh-interpreter import probe"
RULE = ("family 'table': one case per quantity class covering ALL its declared units x 9 values x ALL target units "
        "(as_unit), str(), comparisons/neg/abs/add/sub against a second unit, descriptions, aliases, base unit, "
        "compound-unit recomposition; every result made during a case is re-read at its end (value bits, unit, type unchanged); family 'names': the public name list in-process and in a fresh interpreter; "
        "family 'rnd': random (class, unit, unit2, value, value2) quadruples with log-uniform magnitudes; "
        "non-trivial = class with >= 2 units (table) / two different units (rnd); distinct = canonical case hash")
RULE += '; quantities are constructed positionally, with unit= by keyword and with both by keyword in turn'
RULE += '; and with the unit name as an instance of a str subclass'
ASSUMPTIONS = ["the class attributes _units/_baseunit/_displayunits/_descriptions documented in Quantity's docstring are the declaration tables",
               "|value| in {0} or [1e-12, 1e12] so value*factor neither overflows nor underflows",
               "a compound unit is judged only when its atoms resolve to declared units whose signatures compose to the class signature; others are counted as unresolved"]

VALUES = [0.0, 1.0, -1.0, 1e-9, 0.1, 3.7, 1e12, -2.5, 7]
EPS = 2.0 ** -52
PREFIX = {"y": ("yocto", 1e-24), "z": ("zepto", 1e-21), "a": ("atto", 1e-18), "f": ("femto", 1e-15),
          "p": ("pico", 1e-12), "n": ("nano", 1e-9), "\u03bc": ("micro", 1e-6), "mu": ("micro", 1e-6),
          "m": ("milli", 1e-3), "c": ("centi", 1e-2), "d": ("deci", 1e-1), "da": ("deca", 1e1),
          "h": ("hecto", 1e2), "k": ("kilo", 1e3), "M": ("mega", 1e6), "G": ("giga", 1e9), "T": ("tera", 1e12),
          "P": ("peta", 1e15), "E": ("exa", 1e18), "Z": ("zetta", 1e21), "Y": ("yotta", 1e24)}


def _classes():
    from pydsol.core import units
    return sorted(units.Quantity.__subclasses__(), key=lambda c: c.__name__)


def plan(tier):
    n = 41 + 1 + (3000 if tier == "quick" else 3000000)
    return {"cases": n, "shards": 16, "timeout": 600 if tier == "quick" else 3000, "min_nontrivial": 30,
            "min": {"unit_value_checks": 5000, "as_unit_checks": 50000, "compound_units_judged": 100, "names_checked": 50}}


def EXHAUSTIVE(tier):
    return "all declared units of all quantity classes x 9 values; all (unit, unit2) pairs per class; all names in __all__"


def gen_case(rng, tier, i):
    n = len(_classes())
    if i < n:
        return {"fam": "table", "c": i}
    if i == n:
        return {"fam": "names"}
    mag = 10 ** rng.uniform(-12, 12)
    v = rng.choice([mag, -mag, float(rng.randint(-1000, 1000)), rng.randint(-1000, 1000)])
    mag2 = 10 ** rng.uniform(-6, 6)
    return {"fam": "rnd", "c": rng.randrange(n), "u": rng.random(), "u2": rng.random(), "v": v, "v2": rng.choice([mag2, -mag2])}


# ---------------------------------------------------------------------------------------------------------
def _atoms_index():
    """unit string -> list of (class, factor, signature)"""
    idx = {}
    for c in _classes():
        for u, f in c._units.items():
            idx.setdefault(u, []).append((c, f, tuple(c.sisig())))
    return idx


_ATOM = re.compile(r"^(?P<name>[^\d^]+?)(?:\^?(?P<exp>\d))?$")


def _parse_compound(u):
    """'a.b/c2' -> [(atom, exp)] or None when the spelling has no operator structure"""
    if not any(ch in u for ch in "/.^") and not re.search(r"\d$", u):
        return None
    parts = u.split("/")
    if len(parts) > 2:
        return None
    out = []
    for side, sign in zip(parts, (1, -1)):
        if side == "" and sign == 1:
            continue
        if side == "":
            return None
        for tok in side.split("."):
            m = _ATOM.match(tok)
            if not m or not m.group("name"):
                return None
            out.append((m.group("name"), sign * int(m.group("exp") or 1)))
    return out or None


def _compose(u, cls, idx):
    """all composed factors of u from declared units of *other spellings* that match the class signature"""
    atoms = _parse_compound(u)
    if not atoms:
        return None
    cands = []
    for name, exp in atoms:
        opts = [(c, f, s) for (c, f, s) in idx.get(name, []) if not (c is cls and name == u)]
        if not opts:
            return None
        cands.append([(c, f, s, exp) for (c, f, s) in opts])
    want = tuple(cls.sisig())
    res = []
    for combo in itertools.product(*cands):
        sig = [0] * 9
        fac = 1.0
        for c, f, s, exp in combo:
            for k in range(9):
                sig[k] += s[k] * exp
            fac *= f ** exp
        if tuple(sig) == want:
            res.append((fac, [(c.__name__, exp) for c, f, s, exp in combo]))
    return res or None


_LIVE = []      # (object, SI value as hex, unit, type) of results made during the case: values never change afterwards


def _keep(q):
    _LIVE.append((q, float(q).hex(), q.unit, type(q)))
    return q


def _still_the_same(ctx):
    for q, sihex, unit, tp in _LIVE:
        ctx.count("results_re-read_at_the_end")
        try:
            ok = float(q).hex() == sihex and q.unit == unit and type(q) is tp and float(q.si).hex() == sihex
        except Exception as e:
            ok = False
        if not ok:
            ctx.viol("earlier-result-changed-afterwards", {"class": tp.__name__, "was": [sihex, unit], "now": [float(q).hex(), getattr(q, "unit", None)]})
            break
    del _LIVE[:]


class _UnitName(str):
    pass


def _check_qty(ctx, cls, unit, value, info):
    from vlib.base import fx
    f = cls._units[unit]
    ctx.count("unit_value_checks")
    # the ways to write the same constructor call; the unit name may also be an instance of a str subclass (a model's own
    # unit-name type, a (str, Enum) member): it is that string
    form = ["positional", "unit-by-keyword", "both-by-keyword", "unit-as-str-subclass"][len(_LIVE) % 4]
    info = {**info, "constructed": form}
    try:
        q = _keep(cls(value, unit) if form == "positional" else cls(value, unit=unit) if form == "unit-by-keyword" else
                  cls(unit=unit, value=value) if form == "both-by-keyword" else cls(value, _UnitName(unit)))
    except Exception as e:
        ctx.viol(f"construct:raises:{type(e).__name__}", {**info, "exc": repr(e)})
        return None
    ctx.seen("constructor_call_forms", form)
    want = value * f
    if fx(float(q.si)) != fx(float(want)) or fx(float(q)) != fx(float(want)):
        ctx.viol("si-value", {**info, "got": fx(float(q.si)), "want": fx(float(want)), "factor": f})
    # the coercion idiom cls(x) with a quantity of the same class: a quantity of that SI value (in the base unit); the argument
    # is an argument - it is not changed (the registry re-reads it at the end of the case, and here)
    try:
        c = _keep(cls(q))
        if type(c) is not cls or fx(float(c)) != fx(float(q) * cls._units[cls._baseunit]) or q.unit != unit or c.unit != cls._baseunit:
            ctx.viol("coercion-of-a-quantity", {**info, "got": [type(c).__name__, fx(float(c)), getattr(c, "unit", None)], "argument_unit_now": q.unit})
    except Exception as e:
        ctx.viol(f"coercion-of-a-quantity:raises:{type(e).__name__}", {**info, "exc": repr(e)})
    if q.unit != unit:
        ctx.viol("unit-getter", {**info, "got": q.unit})
    try:
        dv = q.displayvalue
    except Exception as e:
        ctx.viol(f"displayvalue:raises:{type(e).__name__}", {**info, "exc": repr(e)})
        return None
    if abs(dv - value) > 4 * EPS * abs(value):
        ctx.viol("displayvalue", {**info, "got": dv, "want": value})
    disp = cls._displayunits.get(unit, unit)
    try:
        s = str(q)
        r = repr(q)
        if not isinstance(disp, str) or not s.endswith(disp) or not r.endswith(disp):
            ctx.viol("str-display-form", {**info, "str": s, "display": repr(disp)})
    except Exception as e:
        ctx.viol(f"str:raises:{type(e).__name__}", {"class": cls.__name__, "exc": repr(e)[:200], "display_entry": repr(disp)})
    return q


def _check_ops(ctx, cls, a, b, info):
    from vlib.base import fx
    ctx.count("operator_checks")
    fa, fb = float(a), float(b)
    try:
        res = [("eq", a == b, fa == fb), ("ne", a != b, fa != fb), ("lt", a < b, fa < fb), ("le", a <= b, fa <= fb),
               ("gt", a > b, fa > fb), ("ge", a >= b, fa >= fb)]
        for name, got, want in res:
            if got is not want:
                ctx.viol(f"compare-{name}", {**info, "got": got, "want": want})
        for name, r, want in (("neg", -a, -fa), ("abs", abs(a), abs(fa)), ("add", a + b, fa + fb), ("sub", a - b, fa - fb),
                              ("sub-self", a - a, fa - fa), ("sub-swapped", b - a, fb - fa)):
            _keep(r)
            if type(r) is not cls or fx(float(r)) != fx(want) or r.unit != (b.unit if name == "sub-swapped" else a.unit):
                ctx.viol(f"arith-{name}", {**info, "got": [type(r).__name__, fx(float(r)), getattr(r, "unit", None)],
                                           "want": [cls.__name__, fx(want), a.unit]})
    except Exception as e:
        ctx.viol(f"ops:raises:{type(e).__name__}", {**info, "exc": repr(e)})


def run_case(case, ctx):
    from vlib.base import fx
    cl = _classes()
    if case["fam"] == "names":
        return _names(ctx)
    try:
        return _run_units(case, ctx, cl)
    finally:
        _still_the_same(ctx)


def _run_units(case, ctx, cl):
    from vlib.base import fx
    cls = cl[case["c"]]
    units = list(cls._units.keys())
    if case["fam"] == "rnd":
        u = units[int(case["u"] * len(units))]
        u2 = units[int(case["u2"] * len(units))]
        info = {"class": cls.__name__, "unit": u, "unit2": u2, "value": case["v"], "value2": case["v2"]}
        a = _check_qty(ctx, cls, u, case["v"], info)
        b = _check_qty(ctx, cls, u2, case["v2"], info)
        if a is not None and b is not None:
            _check_ops(ctx, cls, a, b, info)
            try:
                a2 = cls(case["v"], u).as_unit(u2)
            except Exception as e:
                # every declared spelling - the empty one of Dimensionless included - is a legal target unit
                ctx.viol(f"as_unit:raises:{type(e).__name__}", {**info, "exc": repr(e)})
                return
            _check_ops(ctx, cls, a, a2, info)
            c = _keep(a.as_unit(u2))
            ctx.count("as_unit_checks")
            if fx(float(c.si)) != fx(float(a.si)) or c.unit != u2 or type(c) is not cls:
                ctx.viol("as_unit", {**info, "got": [fx(float(c.si)), c.unit], "want": [fx(float(a.si)), u2]})
        ctx.nontrivial = u != u2
        return
    # ---- table family: everything declared by this class
    name = cls.__name__
    ctx.seen("classes", name)
    ctx.count("declared_units", len(units))
    if cls._baseunit not in cls._units:
        ctx.viol("base-unit-not-declared", {"class": name, "base": cls._baseunit})
    elif cls._units[cls._baseunit] != 1.0:
        ctx.viol("base-unit-factor-not-one", {"class": name, "base": cls._baseunit, "factor": cls._units[cls._baseunit]})
    for u in units:
        d = cls._descriptions.get(u)
        ctx.count("description_checks")
        if not isinstance(d, str) or not d.strip():
            ctx.viol("unit-without-description", {"class": name, "unit": u, "description": repr(d)})
        f = cls._units[u]
        if not isinstance(f, (int, float)) or not (f > 0) or math.isinf(f):
            ctx.viol("unit-factor-not-positive-finite", {"class": name, "unit": u, "factor": repr(f)})
    for alias, disp in cls._displayunits.items():
        ctx.count("alias_checks")
        if alias not in cls._units:
            ctx.viol("alias-of-undeclared-unit", {"class": name, "alias": alias})
        elif isinstance(disp, str) and disp in cls._units and cls._units[disp] != cls._units[alias]:
            ctx.viol("alias-factor-differs", {"class": name, "alias": alias, "display": disp,
                                              "factors": [cls._units[alias], cls._units[disp]]})
    # (spellings that merely share a description are NOT treated as aliases: a description typo such as
    #  Speed 'ft/min' = 'inch per minute' is a documentation matter, the factor 0.00508 is right)
    idx = _atoms_index()
    for u in units:
        comp = _compose(u, cls, idx)
        if comp is None:
            ctx.count("compound_units_unresolved")
            continue
        ctx.count("compound_units_judged")
        f = cls._units[u]
        for fac, how in comp:
            if not (abs(f / fac - 1.0) <= 1e-9):
                ctx.viol("compound-unit-factor", {"class": name, "unit": u, "declared": f, "composed": fac, "from": how})
                break
    # SI-prefixed spellings: 'km' = kilo x 'm' when the class declares 'm' and the description names the prefix
    for u in units:
        for pfx, (pname, mult) in PREFIX.items():
            b = u[len(pfx):]
            desc = str(cls._descriptions.get(u, "")).lower()
            bdesc = str(cls._descriptions.get(b, "")).lower()
            if u.startswith(pfx) and b in cls._units and b != u and desc == pname + bdesc:
                ctx.count("prefixed_units_judged")
                want = mult * cls._units[b]
                # quantities with a squared/cubed base (Area m2, Volume m3) declare prefixed *lengths*: the
                # description test above only matches linear prefixes such as 'kilogram' = 'kilo'+'gram'
                if not (abs(cls._units[u] / want - 1.0) <= 1e-9):
                    ctx.viol("prefixed-unit-factor", {"class": name, "unit": u, "declared": cls._units[u],
                                                      "prefix": pname, "base": b, "expected": want})
    # every (unit, value); every (unit, unit2)
    other = units[-1] if len(units) > 1 else units[0]
    for u in units:
        info = {"class": name, "unit": u}
        qs = []
        for v in VALUES:
            q = _check_qty(ctx, cls, u, v, {**info, "value": v})
            if q is not None:
                qs.append(q)
        if len(qs) >= 6:
            b = cls(2.0, other)
            nq = cls(math.nan, other)       # not-a-number and infinite SI values are values too: every operator acts on them as on floats
            for x, y in ((qs[1], nq), (nq, qs[5]), (nq, nq), (qs[1], cls(math.inf, other)), (cls(-math.inf, u), qs[5])):
                _check_ops(ctx, cls, x, y, {**info, "a": repr(float(x)), "b": repr(float(y)), "note": "non-finite operand"})
            for a in (qs[1], qs[5], qs[7], qs[0], cls(-0.0, u)):          # (zero on the left is an operand like any other)
                _check_ops(ctx, cls, a, b, {**info, "a": float(a), "b": [2.0, other]})
                _check_ops(ctx, cls, a, a.as_unit(other), {**info, "a": float(a), "b": "same value in " + other})
            _check_ops(ctx, cls, qs[5], cls(0.0, other), {**info, "a": float(qs[5]), "b": [0.0, other]})
            for u2 in units:
                for a in (qs[5], qs[3], qs[0]):
                    ctx.count("as_unit_checks")
                    try:
                        c = _keep(a.as_unit(u2))
                        if fx(float(c.si)) != fx(float(a.si)) or c.unit != u2 or type(c) is not cls:
                            ctx.viol("as_unit", {**info, "unit2": u2, "got": [fx(float(c.si)), c.unit], "want": [fx(float(a.si)), u2]})
                        # the re-expressed quantity is rendered in ITS unit and value (the source was rendered before)
                        disp2 = cls._displayunits.get(u2, u2)
                        txt = str(c)
                        if isinstance(disp2, str) and (not txt.endswith(disp2) or not txt.startswith(str(c.displayvalue))):
                            ctx.viol("as_unit:text", {**info, "unit2": u2, "text": txt, "expected": f"{c.displayvalue} {disp2}", "source_text": str(a)})
                    except Exception as e:
                        ctx.viol(f"as_unit:raises:{type(e).__name__}", {**info, "unit2": u2, "exc": repr(e)})
    try:
        cls(1.0, "no-such-unit-xyz")
        ctx.viol("undeclared-unit-accepted", {"class": name})
    except ValueError:
        pass
    ctx.nontrivial = len(units) >= 2


def _names(ctx):
    from pydsol.core import units
    from vlib import base
    for n in units.__all__:
        ctx.count("names_checked")
        if not hasattr(units, n):
            ctx.viol("advertised-name-missing", {"name": n})
    # every quantity class and its Dist wrapper should be advertised... not demanded by the statement: not judged
    code = ("import sys\nns = {}\n"
            "try:\n    exec('from pydsol.core.units import *', ns)\n    print('OK', len(ns))\n"
            "except Exception as e:\n    print('FAIL', type(e).__name__, e)\n")
    r = subprocess.run([base.PY, "-B", "-c", code], env=base.child_env(), capture_output=True, text=True, timeout=120)
    ctx.count("fresh_interpreter_import_probes")
    if not r.stdout.startswith("OK"):
        ctx.viol("star-import-fails", {"stdout": r.stdout[-400:], "stderr": r.stderr[-400:]})
    ctx.nontrivial = True
