"""
C08 - publish/subscribe: a fired event reaches exactly its subscribers, once, in subscription order.
Monitor: per-listener delivery log of the real EventProducer compared with a reference subscription model
that executes the same listener scripts recursively (so re-entrant subscription changes and nested firing
are specified, not guessed); has_listeners() after every top-level operation; a metadata family that tries
generated payload shapes against generated declarations with checking on and off.
"""
import itertools
import json

ID = "C08"
LEVEL = "exploration"
TECHNIQUE = "runtime monitor: delivery log vs executable reference subscription model incl. re-entrant listener scripts; metadata conformance sweep"
RULE = ("family 'hist': seeded random histories of 10-40 top-level ops (add/remove listener, the four "
        "remove_all_listeners forms, fire, fire_timed, fire_event, fire_timed_event, has_listeners) over 2-4 event "
        "types (in half of the cases all of one name, declared in different classes) and 2-5 listeners whose notify() runs generated scripts (subscription changes on self/others, nested "
        "fire up to depth 3); every fired content is a unique integer; family 'meta': metadata declarations (0-4 "
        "keys, types int/float/str/bool/list/Duration) x payload shapes x check on/off x Event/TimedEvent; "
        "non-trivial(hist) = >=1 subscription change executed inside a notification and >=1 nested fire delivered; "
        "non-trivial(meta) = declaration with >=1 key; distinct = canonical case hash")
RULE += '; a quarter of the cases use listeners with value equality, each as two equal distinct objects used alternately (one subscriber)'
ASSUMPTIONS = ["only the direction the statement makes is judged for metadata: an event that was created must conform "
               "(the library additionally refusing None values is not a violation)",
               "a listener script stops re-entering after its 2nd activation / nesting depth 3 (bounds recursion, same in model)"]

_uid = itertools.count()


def plan(tier):
    n = 36000 if tier == "quick" else 900000
    return {"cases": n, "shards": 16, "timeout": 600 if tier == "quick" else 3000, "min_nontrivial": 2000,
            "min": {"deliveries_compared": 100000, "nested_fires": 5000, "metadata_attempts": 4000}}


def _act(rng, nt, nl, nested):
    r = rng.random()
    t, l = rng.randrange(nt), rng.randrange(nl)
    if r < 0.22:
        return ["add", t, l]
    if r < 0.36:
        return ["rm", t, l]
    if r < 0.40:
        return ["rmall"]
    if r < 0.45:
        return ["rmall_t", t]
    if r < 0.51:
        return ["rmall_l", l]
    if r < 0.55:
        return ["rmall_tl", t, l]
    if r < 0.72:
        return ["fire", t]
    if r < 0.82:
        return ["fire_timed", t, rng.choice([0, 1.5, 7, 2.25, ["dur", 3.0, "min"]])]
    if r < 0.88:
        return ["fire_event", t]
    if r < 0.93:
        return ["fire_timed_event", t, rng.choice([0.0, 3, 9.75])]
    return ["has"] if not nested else ["add", t, l]


TYPES = ["int", "float", "str", "bool", "list", "Duration", "object"]       # 'object': any value will do - but the key must be there


def gen_case(rng, tier, i):
    if i % 6 == 5:
        nk = rng.randint(0, 4)
        decl = {f"k{j}": rng.choice(TYPES) for j in range(nk)}
        shape = rng.choice(["ok", "ok", "missing", "extra", "wrongtype", "nondict", "subclass", "none_value", "renamed", "empty",
                            "reordered", "reordered_swapped", "defaultdict", "reused_then_mutated", "extra_none", "extra_falsy", "mapping_not_dict"])
        return {"fam": "meta", "decl": decl, "shape": shape, "check": rng.random() < 0.7, "timed": rng.random() < 0.5,
                "ts": rng.choice([0, 1.5, ["dur", 2.0, "h"], "bad", None])}
    nt, nl = rng.randint(2, 4), rng.randint(2, 5)
    ops = [_act(rng, nt, nl, False) for _ in range(rng.randint(10, 40))]
    # make sure something is subscribed early
    ops[:0] = [["add", rng.randrange(nt), rng.randrange(nl)] for _ in range(rng.randint(1, 4))]
    scripts = {}
    for l in range(nl):
        for t in range(nt):
            if rng.random() < 0.45:
                scripts[f"{l}:{t}"] = [_act(rng, nt, nl, True) for _ in range(rng.randint(1, 3))]
    return {"fam": "hist", "nt": nt, "nl": nl, "ops": ops, "scripts": scripts}


def _ts(v):
    if isinstance(v, list) and v and v[0] == "dur":
        from pydsol.core.units import Duration
        return Duration(v[1], v[2])
    return v


# ---------------------------------------------------------------------------------------------- model
class _Model:
    def __init__(self, case):
        self.subs = {t: [] for t in range(case["nt"])}
        self.scripts = case["scripts"]
        self.log = []
        self.counter = 0
        self.activ = {}
        self.flags = {"inner_change": 0, "nested": 0}

    def has(self):
        return any(self.subs[t] for t in self.subs)

    def do(self, a, depth):
        k = a[0]
        if k == "add":
            if a[2] not in self.subs[a[1]]:
                self.subs[a[1]].append(a[2])
        elif k in ("rm", "rmall_tl"):
            if a[2] in self.subs[a[1]]:
                self.subs[a[1]].remove(a[2])
        elif k == "rmall":
            for t in self.subs:
                self.subs[t] = []
        elif k == "rmall_t":
            self.subs[a[1]] = []
        elif k == "rmall_l":
            for t in self.subs:
                if a[1] in self.subs[t]:
                    self.subs[t].remove(a[1])
        elif k in ("fire", "fire_timed", "fire_event", "fire_timed_event"):
            if depth >= 3:
                return
            if depth > 0:
                self.flags["nested"] += 1
            cid = self.counter
            self.counter += 1
            ts = a[2] if k in ("fire_timed", "fire_timed_event") else None
            for l in list(self.subs[a[1]]):
                self.log.append([l, a[1], cid, ts])
                self.notify(l, a[1], depth + 1)
        if depth > 0 and k in ("add", "rm", "rmall", "rmall_t", "rmall_l", "rmall_tl"):
            self.flags["inner_change"] += 1

    def notify(self, l, t, depth):
        key = f"{l}:{t}"
        sc = self.scripts.get(key)
        if not sc:
            return
        n = self.activ.get(key, 0)
        self.activ[key] = n + 1
        if n >= 2:
            return
        for a in sc:
            self.do(a, depth)


def run_case(case, ctx):
    if case["fam"] == "meta":
        return _meta(case, ctx)
    from pydsol.core.pubsub import EventProducer, EventListener, EventType, Event, TimedEvent
    from vlib.base import fx
    n = next(_uid)
    if len(json.dumps(case["scripts"])) % 2 == 0:
        # event types of the same name declared in different classes are different types (the defining class is part of
        # a type's identity): Machine.STATUS and Conveyor.STATUS on one producer must not share subscriptions
        types = []
        for t in range(case["nt"]):
            ns = {}
            exec(f"class C08_{n}_{t}:\n    STATUS = EventType('c08_{n}_STATUS')\n", {"EventType": EventType}, ns)
            types.append(ns[f"C08_{n}_{t}"].STATUS)
        ctx.count("cases_with_same_named_types_of_different_classes")
    else:
        types = [EventType(f"c08_{n}_{t}") for t in range(case["nt"])]
    tindex = {id(t): i for i, t in enumerate(types)}
    prod = EventProducer()
    log = []
    counter = [0]
    activ = {}
    scripts = case["scripts"]
    tsbad = []

    def do(a, depth):
        k = a[0]
        if k == "add":
            prod.add_listener(types[a[1]], ls[a[2]])
        elif k == "rm":
            prod.remove_listener(types[a[1]], ls[a[2]])
        elif k == "rmall":
            prod.remove_all_listeners()
        elif k == "rmall_t":
            prod.remove_all_listeners(types[a[1]])
        elif k == "rmall_l":
            prod.remove_all_listeners(listener=ls[a[1]])
        elif k == "rmall_tl":
            prod.remove_all_listeners(types[a[1]], ls[a[2]])
        elif k in ("fire", "fire_timed", "fire_event", "fire_timed_event"):
            if depth >= 3:
                return
            cid = counter[0]
            counter[0] += 1
            if k == "fire":
                prod.fire(types[a[1]], cid)
            elif k == "fire_timed":
                prod.fire_timed(_ts(a[2]), types[a[1]], cid)
            elif k == "fire_event":
                prod.fire_event(Event(types[a[1]], cid))
            else:
                prod.fire_timed_event(TimedEvent(_ts(a[2]), types[a[1]], cid))

    class L(EventListener):
        def __init__(self, i):
            self.i = i
            self.depth = 0

        def notify(self, event):
            t = tindex.get(id(event.event_type), -1)
            ts = getattr(event, "timestamp", None) if isinstance(event, TimedEvent) else None
            log.append([self.i, t, event.content, ts])
            key = f"{self.i}:{t}"
            sc = scripts.get(key)
            if not sc:
                return
            k = activ.get(key, 0)
            activ[key] = k + 1
            if k >= 2:
                return
            cur[0] += 1
            try:
                for a in sc:
                    do(a, cur[0])
            finally:
                cur[0] -= 1

    class FalsyL(L):
        """a listener object that is falsy (e.g. a recording listener with __len__): identity, not truthiness, matters"""
        def __len__(self):
            return 0

    class EqL(L):
        """a listener with value equality (e.g. a dataclass): two equal objects are one subscriber - 'already registered' and
        'remove' both go by equality"""
        def __eq__(self, other):
            return isinstance(other, EqL) and other.i == self.i

        def __hash__(self):
            return hash(("EqL", self.i))

    cur = [0]
    if n % 4 == 1:
        # every listener exists as two equal, distinct objects that are used alternately
        twins = [[EqL(i), EqL(i)] for i in range(case["nl"])]
        turn = [0]

        class _Pick:
            def __getitem__(self, i):
                turn[0] += 1
                return twins[i][turn[0] % 2]
        ls = _Pick()
        ctx.count("cases_with_equal_but_distinct_listener_objects")
    else:
        ls = [(FalsyL if (i + n) % 3 == 0 else L)(i) for i in range(case["nl"])]
    model = _Model(case)
    for opi, a in enumerate(case["ops"]):
        mark = len(log)
        try:
            if a[0] == "has":
                got = prod.has_listeners()
            else:
                do(a, 0)
        except Exception as e:
            ctx.viol(f"operation-raises:{a[0]}:{type(e).__name__}", {"op_index": opi, "op": a, "exc": repr(e)})
            return
        mmark = len(model.log)
        model.do(a, 0)
        # compare the deliveries caused by this top-level operation
        got_d = [[l, t, c, fx(_plain(ts))] for l, t, c, ts in log[mark:]]
        want_d = [[l, t, c, fx(_plain(_ts(ts)))] for l, t, c, ts in model.log[mmark:]]
        ctx.count("deliveries_compared", len(want_d))
        if got_d != want_d:
            ctx.viol(_classify(got_d, want_d), {"op_index": opi, "op": a, "got": got_d[:12], "want": want_d[:12]})
            return
        ctx.count("has_listeners_checks")
        if prod.has_listeners() is not model.has():
            ctx.viol("has_listeners", {"op_index": opi, "op": a, "got": prod.has_listeners(), "want": model.has()})
            return
    ctx.count("nested_fires", model.flags["nested"])
    ctx.count("inner_subscription_changes", model.flags["inner_change"])
    if model.flags["nested"] and model.flags["inner_change"] and any(x for x in model.log):
        ctx.nontrivial = True


def _plain(ts):
    if ts is None:
        return None
    return [type(ts).__name__, float(ts)]


def _classify(got, want):
    g = sorted(map(tuple, [[x[0], x[1], x[2]] for x in got]))
    w = sorted(map(tuple, [[x[0], x[1], x[2]] for x in want]))
    if g == w:
        if [x[:3] for x in got] == [x[:3] for x in want]:
            return "delivery-timestamp"
        return "delivery-order"
    if len(set(g)) < len(g):
        return "delivery-duplicate"
    if set(g) < set(w):
        return "delivery-missing"
    if set(g) > set(w):
        return "delivery-extra"
    return "delivery-set-differs"


# ---------------------------------------------------------------------------------------------- metadata family
def _tobj(name):
    from pydsol.core.units import Duration
    return {"int": int, "float": float, "str": str, "bool": bool, "list": list, "Duration": Duration, "object": object}[name]


def _sample(name, variant=0):
    from pydsol.core.units import Duration
    return {"int": [3, 0, -7], "float": [2.5, 0.0, -1e9], "str": ["x", "", "abc"], "bool": [True, False, True],
            "list": [[1], [], [None]], "Duration": [Duration(1.0, "s"), Duration(0.0, "h"), Duration(2.0, "min")],
            "object": [("any", 1), 7, "text"]}[name][variant % 3]


def _conforms(decl, payload):
    if not isinstance(payload, dict):
        return False
    if set(payload.keys()) != set(decl.keys()):
        return False
    return all(isinstance(payload[k], _tobj(t)) for k, t in decl.items())


def _meta(case, ctx):
    from pydsol.core.pubsub import EventType, Event, TimedEvent, EventProducer, EventListener
    decl, shape = case["decl"], case["shape"]
    n = next(_uid)
    et = EventType(f"c08m_{n}", {k: _tobj(t) for k, t in decl.items()})
    keys = list(decl)
    payload = {k: _sample(t, i) for i, (k, t) in enumerate(decl.items())}
    if shape == "missing" and keys:
        del payload[keys[0]]
    elif shape == "extra":
        payload["zz_extra"] = 1
    elif shape == "mapping_not_dict" and keys:
        # a mapping with the right keys and values that is not a dict (a read-only view, a UserDict): the declaration asks for a dict
        import types, collections
        payload = types.MappingProxyType(dict(payload)) if len(keys) % 2 else collections.UserDict(payload)
    elif shape == "extra_none":
        payload["zz_extra"] = None          # a surplus key is a surplus key, whatever its value
        if len(keys) % 2:
            payload["zz_more"] = None
    elif shape == "extra_falsy":
        payload["zz_extra"] = [0, "", False, 0.0][len(keys) % 4]
    elif shape == "wrongtype" and keys:
        wrong = {"int": "s", "float": "s", "str": 5, "bool": "s", "list": 5, "Duration": 5.0, "object": 5}
        payload[keys[-1]] = wrong[decl[keys[-1]]]
    elif shape == "nondict":
        payload = [payload.get(k) for k in keys]
    elif shape == "subclass" and keys:
        class MyStr(str):
            pass

        class MyList(list):
            pass
        sub = {"int": True, "float": _sample("Duration"), "str": MyStr("q"), "bool": True, "list": MyList(), "Duration": _sample("Duration"), "object": MyStr("o")}
        payload[keys[0]] = sub[decl[keys[0]]]
    elif shape == "none_value" and keys:
        payload[keys[0]] = None
    elif shape == "renamed" and keys:
        payload[keys[0] + "_x"] = payload.pop(keys[0])
    elif shape == "empty":
        payload = {}
    elif shape == "defaultdict" and keys and decl[keys[0]] in ("int", "float", "str", "bool", "list", "object"):
        # a dict subclass that invents missing keys on look-up: it lacks a declared key (and has a stray one instead)
        import collections
        fac = {"int": int, "float": float, "str": str, "bool": bool, "list": list, "object": object}[decl[keys[0]]]
        first = payload.pop(keys[0])
        payload = collections.defaultdict(fac, {**payload, "zz_other": first})
    elif shape == "reused_then_mutated" and keys:
        # the same dict object was a conforming payload of an earlier event of this type and has been changed since
        try:
            Event(et, payload, True)
            TimedEvent(1.0, et, payload, True)
        except Exception:
            pass
        wrong = {"int": "s", "float": "s", "str": 5, "bool": "s", "list": 5, "Duration": 5.0, "object": 5}
        if len(keys) % 2:
            payload[keys[-1]] = wrong[decl[keys[-1]]]
        else:
            del payload[keys[0]]
            payload["zz_other"] = 1
    elif shape == "reordered":
        # the same conforming payload with its keys inserted in reverse order: a dict is a dict
        payload = {k: payload[k] for k in reversed(keys)}
    elif shape == "reordered_swapped":
        # keys in reverse order, and the value at position i has the type declared at position i: conforming only by position
        vals = [payload[k] for k in keys]
        payload = {k: v for k, v in zip(reversed(keys), vals)}
    ts = _ts(case["ts"])
    ctx.count("metadata_attempts")
    keys_before = list(payload.keys()) if isinstance(payload, dict) else None
    created = None
    try:
        created = TimedEvent(ts, et, payload, case["check"]) if case["timed"] else Event(et, payload, case["check"])
    except Exception as e:
        ctx.count("metadata_refusals")
        ctx.seen("refusal_exception_types", type(e).__name__)
    if keys_before is not None and list(payload.keys()) != keys_before:
        ctx.viol("payload-changed-by-the-check", {"decl": decl, "shape": shape, "keys_before": keys_before, "keys_after": list(payload.keys())})
        return
    if created is None and shape == "reordered" and case["check"] and _conforms(decl, payload):
        # key order is not part of a dict payload: refused here although the same payload in declaration order is accepted?
        try:
            ordered = {k: payload[k] for k in keys}
            TimedEvent(ts, et, ordered, True) if case["timed"] else Event(et, ordered, True)
            ctx.viol("conforming-payload-refused-because-of-its-key-order", {"decl": decl, "payload": repr(payload)[:300]})
            return
        except Exception:
            pass
    if created is None and _conforms(decl, payload) and (not case["timed"] or (isinstance(ts, (int, float)) and not isinstance(ts, bool))) \
            and shape in ("ok", "subclass", "reordered"):
        # every declared key present with a value that is an instance of the declared type (instances of subclasses are
        # instances), no other keys, a proper time stamp: the event must be created
        ctx.viol(f"conforming-payload-refused:{shape}", {"decl": decl, "payload": repr(payload)[:300], "timed": case["timed"], "check": case["check"]})
        return
    if created is not None and case["check"] and isinstance(payload, dict) and type(payload) is dict and _conforms(decl, payload):
        # right after a conforming payload was accepted: the same payload with one value replaced by an EQUAL value of a type
        # that does not conform (1.0 for 1, 1 for 1.0) is judged on its own - an accepted payload vouches for nothing else
        for k in keys:
            v = payload.get(k)
            twin_v = None
            if decl[k] == "int" and type(v) is int and float(v) == v:
                twin_v = float(v)
            elif decl[k] == "float" and type(v) is float and v == v and abs(v) < 2 ** 53 and v == int(v):
                twin_v = int(v)
            if twin_v is None:
                continue
            twin = dict(payload)
            twin[k] = twin_v
            if _conforms(decl, twin):
                continue
            ctx.count("equal_valued_nonconforming_twins_tried")
            try:
                TimedEvent(ts, et, twin, True) if case["timed"] else Event(et, twin, True)
            except Exception:
                break
            ctx.viol("nonconforming-event-created:equal-to-an-accepted-payload", {"decl": decl, "payload": repr(payload)[:200], "twin": repr(twin)[:200]})
            return
    if created is not None:
        ctx.count("metadata_created")
        if case["check"] and not _conforms(decl, payload):
            ctx.viol("nonconforming-event-created", {"decl": decl, "shape": shape, "payload": repr(payload)[:300], "timed": case["timed"]})
        if not case["check"] and not isinstance(payload, dict):
            ctx.viol("non-dict-event-created-unchecked", {"decl": decl, "shape": shape})
        if case["timed"]:
            if not isinstance(ts, (int, float)) or isinstance(ts, bool) and False:
                ctx.viol("timed-event-with-non-numeric-timestamp", {"ts": repr(ts)})
            elif created.timestamp is not ts:
                ctx.viol("timestamp-not-the-value-fired", {"ts": repr(ts), "got": repr(created.timestamp)})
        if created.content is not payload or created.event_type is not et:
            ctx.viol("event-content-or-type-altered", {"decl": decl})
        # and it is deliverable
        got = []

        class L(EventListener):
            def notify(self, event):
                got.append(event)
        p = EventProducer()
        p.add_listener(et, L())
        try:
            if case["timed"]:
                p.fire_timed(ts, et, payload, case["check"])
            else:
                p.fire(et, payload, case["check"])
        except Exception as e:
            # the event itself could be created with these arguments: firing them through the producer must work too
            ctx.viol(f"fire-refuses-what-the-event-class-accepts:{type(e).__name__}", {"decl": decl, "shape": shape, "check": case["check"],
                                                                                    "timed": case["timed"], "exc": repr(e)[:200]})
            return
        if len(got) != 1 or got[0].content is not payload or (case["timed"] and got[0].timestamp is not ts):
            ctx.viol("fired-metadata-event-not-delivered-intact", {"decl": decl, "n": len(got)})
    ctx.seen("meta_shapes", f"{shape}:{'check' if case['check'] else 'nocheck'}:{'created' if created is not None else 'refused'}")
    ctx.nontrivial = len(decl) >= 1
