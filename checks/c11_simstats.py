"""
C11 - simulation statistics honour warm-up and replication end; publish true values.
Monitor: generated model programs with observation actions are run on the real simulator; one global
timeline records handlers, notifications and observations in order.  At the end of the replication every
simulation statistic is compared bit-for-bit with an ordinary statistic fed exactly the observations the
timeline shows after the WARMUP notification (persistent: closed at the replication end, plus the exact
rational time average); the WARMUP notification's place in the timeline is checked; a subscriber on every
statistics event type compares each published payload with the getter called inside that notification.
"""
import math
import os
import sys

ID = "C11"
LEVEL = "exploration"
TECHNIQUE = "runtime monitor: global timeline (handlers, notifications, observations) of real runs; sim statistics vs ordinary statistics fed the post-warm-up observations (bit-exact) and exact rational time average; payload-vs-getter subscriber"
RULE = ("seeded model programs (float/int/Duration clocks, warm-up in {0, inside, = end}, ties with priorities 1-10 at "
        "the warm-up instant) with SimCounter/SimTally/SimWeightedTally/SimPersistent created in construct_model, fed "
        "by direct register and by data events from a producer, optionally interrupted by forced pauses, 30% with one-shot warm-up listeners subscribed before the statistics; a sibling model with the same statistic keys is initialised before the key look-ups are repeated; non-trivial "
        "= >=1 observation before and >=2 after the warm-up notification for some statistic and the warm-up strictly "
        "inside the run; distinct = canonical program hash")
RULE += '; one case in seven uses a model object that is falsy (an empty container with __len__)'
RULE += '; in a third of the cases half of the counter increments are bool / IntEnum / int-subclass objects'
ASSUMPTIONS = ["an observation made at exactly the warm-up time by an event that ran before the warm-up notification (priority 10, "
               "scheduled earlier, or during construct_model) is ambiguous in the statement: counting it and not counting it are both accepted",
               "the ordinary statistic is fed through the same numeric conversion the documented entry point applies (float() for data events)"]


def plan(tier):
    n = 8000 if tier == "quick" else 400000
    return {"cases": n, "shards": 12, "timeout": 900 if tier == "quick" else 5400, "min_nontrivial": 100,
            "min": {"statistics_compared": 2000, "published_values_compared": 20000, "warmup_placements_checked": 1000,
                    "persistent_time_averages": 200}}


def gen_case(rng, tier, i):
    from vlib.proggen import gen_program, add_stats
    clock = ["float", "duration", "int", "float"][i % 4]
    length = rng.choice([10, 20])
    warm = rng.choice([0, 2, 5, length // 2, length, 3, 4])
    if clock == "int" and (i // 4) % 3 == 0:
        warm = [2.5, 4.5, 0.5][(i // 12) % 3]        # a warm-up time between two ticks of an int clock
    prog = gen_program(rng, clock=clock, n_events=rng.randint(6, 40), with_bad=False, horizon=length, warm=warm,
                       with_cancel=rng.random() < 0.3, start_at=(2 ** 30 if clock != "duration" and i % 5 == 4 else None))
    add_stats(rng, prog, watch=True, density=0.9, baseline=True)
    if rng.random() < 0.3:
        from vlib.proggen import add_oneshot_simlisteners
        add_oneshot_simlisteners(rng, prog)     # the model's own warm-up listeners come and go; every statistic still gets its reset
    if i % 3 == 1:
        # counter increments that are ints but not plain int objects (True, IntEnum members, an int subclass)
        from vlib.subtypes import int_marker
        ckeys = {sp["key"] for sp in prog["stats"] if sp["kind"] == "counter"}
        pos = 0
        for acts in [prog["init"]] + list(prog["handlers"].values()) + [prog.get("initial", [])]:
            for a_ in acts:
                if a_[0] == "obs" and a_[1] in ckeys and isinstance(a_[2], int):
                    pos += 1
                    if pos % 2:
                        a_[2] = int_marker(a_[2], pos // 2)
    if i % 5 == 1:
        # the tallies' subscribers close a batch (initialize()) from inside the N notification when n reaches 3: what is published
        # after that in the same round is compared with the getters as always; the end results of these tallies are not judged
        for sp in prog["stats"]:
            if sp["kind"] == "tally" and sp.get("watch"):
                sp["watch"] = "reset3"
    if i % 3 == 2:
        # statistics without a producer are fed by handing them their default data event directly (notify) instead of register()
        for sp in prog["stats"]:
            if sp.get("via") in (None, "register") and sp["kind"] in ("counter", "tally", "wtally", "persistent"):
                sp["via"] = "notify"
    if i % 7 == 2:
        prog["empty_container_model"] = True      # the model object is falsy (an empty container with __len__)
    case = {"prog": prog, "pauses": [rng.randint(1, 6) for _ in range(rng.choice([0, 0, 1, 2]))]}
    if i % 6 == 3:
        # the model ends its replication early from a handler (after the warm-up), and the run that is in progress then
        # is a bounded one: the statistics are closed at the replication end all the same
        from vlib.refdevs import Ref, WARMUP, tnum
        ref = Ref(prog)
        ref.initialize()
        ref.run()
        start_ = tnum(prog, prog["rep"]["start"])
        warm_, end_ = start_ + tnum(prog, prog["rep"]["warmup"]), start_ + tnum(prog, prog["rep"]["length"])
        late = [(t, c) for t, c, _ in ref.trace if t != WARMUP and warm_ < c < end_]
        if late:
            tag, c = late[len(late) // 2]
            prog["handlers"].setdefault(tag, []).append(["endrep"])
            b = c + (end_ - c) / 2
            case["bound_first"] = [float(b), "s"] if clock == "duration" else (float(b) if clock == "float" or b != int(b) else int(b))
            case["pauses"] = []
    return case


def shard_setup(tier, ctx):
    sink = open(os.devnull, "w")
    sys.stdout = sink
    sys.stderr = sink


def shard_teardown(tier, ctx):
    from vlib import simharness
    simharness.cleanup_all()
    sys.stdout = sys.__stdout__
    sys.stderr = sys.__stderr__


def _mat(v):
    from vlib.subtypes import materialize
    return materialize(v)


def _ordinary(S, kind, obs, conv, end):
    """an ordinary statistic fed the given observation records"""
    if kind == "counter":
        o = S.Counter("o")
        for r in obs:
            o.register(_mat(r[3][0]))
    elif kind == "tally":
        o = S.Tally("o")
        for r in obs:
            o.register(conv(r[3][0]))
    elif kind == "wtally":
        o = S.WeightedTally("o")
        for r in obs:
            o.register(conv(r[3][0]), conv(r[3][1]))
    else:
        o = S.TimestampWeightedTally("o")
        for r in obs:
            o.register(float(r[2]), conv(r[3][0]))
        o.end_observations(float(end))
    return o


def run_case(case, ctx):
    from pydsol.core import statistics as S
    from vlib.simharness import Harness, stat_getters
    from vlib.refdevs import tnum
    from vlib.exactstats import ExactWeighted, close
    from vlib.base import fx
    from fractions import Fraction
    prog = case["prog"]
    where = {"clock": prog["clock"], "rep": prog["rep"]}
    start = tnum(prog, prog["rep"]["start"])
    warm = start + tnum(prog, prog["rep"]["warmup"])
    end = start + tnum(prog, prog["rep"]["length"])
    h = Harness(prog)
    if prog.get("empty_container_model"):
        ctx.count("cases_with_a_falsy_model_object")
    try:
        if len(case["pauses"]) == 1:
            # the judged replication is not the first one on this simulator: it was initialised once before
            ctx.count("replications_on_a_simulator_initialised_before")
            h.cmd("initialize")
            h.reset_logs()
        if h.cmd("initialize") != "ok":
            ctx.viol("initialize-raises", where)
            return
        created = dict(h.stats)
        for k in case["pauses"]:
            if h.sim.run_state.name in ("ENDED",):
                break
            h.start_and_pause_after(k)
            if not h.wait_quiescent(20):
                ctx.viol("hang:pause", {**where, "snapshot": h.snapshot()})
                return
        if case.get("bound_first") is not None:
            ctx.count("replications_ended_early_by_a_handler_inside_a_bounded_run")
            if h.cmd("run_up_to", case["bound_first"]) != "ok" or not h.wait_quiescent(20):
                ctx.viol("run-did-not-complete", {**where, "snapshot": h.snapshot()})
                return
        if h.sim.run_state.name != "ENDED" and case.get("bound_first") is None and len(prog["handlers"]) % 3 == 0:
            # the last command is a bounded run whose bound lies beyond the replication end (that is a run to the end,
            # observations at the end time included)
            ctx.count("replications_finished_by_a_bound_beyond_the_end")
            beyond = end + (end - start) / 2
            lit_ = [float(beyond), "s"] if prog["clock"] == "duration" else (float(beyond) if prog["clock"] == "float" or beyond != int(beyond) else int(beyond))
            if h.cmd("run_up_to", lit_) != "ok" or not h.wait_quiescent(20):
                ctx.viol("run-did-not-complete", {**where, "snapshot": h.snapshot()})
                return
        if h.sim.run_state.name != "ENDED":
            if h.cmd("start") != "ok" or not h.wait_quiescent(20):
                ctx.viol("run-did-not-complete", {**where, "snapshot": h.snapshot()})
                return
        snap = h.snapshot()
        if snap["run_state"] != "ENDED":
            ctx.viol("not-ended", {**where, "snapshot": snap})
            return
        tl = list(h.timeline)
        # ---- (2) warm-up notification: once, at the warm-up time, placed correctly in the timeline
        widx = [i for i, r in enumerate(tl) if r[0] == "n" and r[1] == "WARMUP_EVENT"]
        ctx.count("warmup_placements_checked")
        if len(widx) != 1:
            ctx.viol("warmup-notification-count", {**where, "count": len(widx)})
            return
        wi = widx[0]
        if tl[wi][2] != warm:
            ctx.viol("warmup-notification-timestamp", {**where, "got": tl[wi][2], "want": float(warm)})
            return
        for i, r in enumerate(tl):
            if r[0] != "h":
                continue
            t, pr = r[2], r[3]
            if i < wi and not (t < warm or (t == warm and pr is not None and pr >= 10)):
                ctx.viol("event-at-or-after-warmup-ran-before-the-warmup-notification", {**where, "event": r, "warmup": float(warm)})
                return
            if i > wi and t < warm:
                ctx.viol("event-before-warmup-ran-after-the-warmup-notification", {**where, "event": r, "warmup": float(warm)})
                return
        eidx = [i for i, r in enumerate(tl) if r[0] == "n" and r[1] == "END_REPLICATION_EVENT"]
        if len(eidx) != 1 or tl[eidx[0]][2] != end:
            ctx.viol("end-replication-notification", {**where, "records": [tl[i] for i in eidx], "end": float(end)})
            return
        # ---- (4) retrievable under their key
        for key, st in created.items():
            try:
                if h.model.get_output_statistic(key) is not st:
                    ctx.viol("output-statistic-identity", {**where, "key": key})
                    return
            except Exception as e:
                ctx.viol(f"output-statistic-not-retrievable:{type(e).__name__}", {**where, "key": key})
                return
        # ... also after another model object (same keys) was built and initialised on its own simulator in this process
        h2 = Harness(prog, "other")
        try:
            if h2.cmd("initialize") == "ok":
                ctx.count("sibling_models_initialised")
                for key, st in created.items():
                    try:
                        mine, other = h.model.get_output_statistic(key), h2.model.get_output_statistic(key)
                    except Exception as e:
                        ctx.viol(f"output-statistic-not-retrievable:{type(e).__name__}", {**where, "key": key, "after": "a sibling model was initialised"})
                        return
                    if mine is not st or other is not h2.stats.get(key) or other is st:
                        ctx.viol("output-statistic-identity", {**where, "key": key, "after": "a sibling model was initialised"})
                        return
        finally:
            h2.cleanup()
        # ---- (1)/(3) value comparison
        nontrivial = False
        for sp in prog["stats"]:
            key, kind, via = sp["key"], sp["kind"], sp.get("via")
            st = created[key]
            if sp.get("watch") == "reset3":
                ctx.count("tallies_re-initialised_by_their_own_subscriber")
                continue
            obs = [(i, r) for i, r in enumerate(tl) if r[0] == "o" and r[1] == key]
            # (a baseline registered from the statistic's own INITIALIZED notification is made after the reset by
            # construction, although the recorder hears of the warm-up only afterwards)
            base_ = [(i, r) for i, r in obs if len(r) > 4]
            ctx.count("baseline_observations_from_the_INITIALIZED_notification", len(base_))
            obs = [(i, r) for i, r in obs if len(r) <= 4]
            post = [r for i, r in base_] + [r for i, r in obs if i > wi]
            pre = [r for i, r in obs if i < wi]
            # observations made at exactly the warm-up time *before* the warm-up notification (priority-10 events scheduled
            # earlier, construct_model): the statement can be read either way, so both readings are acceptable oracles
            edge = [r for i, r in obs if i < wi and r[2] == warm]
            conv = (lambda v: float(v)) if via in ("event", "notify") else (lambda v: v)
            if edge:
                ctx.count("statistics_with_an_observation_at_the_warmup_instant_before_the_notification")
                verdicts = []
                for reading in (post, edge + post):
                    o = _ordinary(S, kind, reading, conv, end)
                    verdicts.append(stat_getters(st) == stat_getters(o))
                ctx.count("statistics_compared")
                if not any(verdicts):
                    ctx.viol(f"sim-statistic-differs:{kind}", {**where, "key": key, "via": via, "note": "differs under both readings of "
                             "observations made at the warm-up instant before the notification", "got": stat_getters(st),
                             "n_pre": len(pre), "n_post": len(post)})
                    return
                continue
            if kind == "counter":
                o = S.Counter("o")
                for r in post:
                    o.register(_mat(r[3][0]))
            elif kind == "tally":
                o = S.Tally("o")
                for r in post:
                    o.register(conv(r[3][0]))
            elif kind == "wtally":
                o = S.WeightedTally("o")
                for r in post:
                    o.register(conv(r[3][0]), conv(r[3][1]))
            else:
                o = S.TimestampWeightedTally("o")
                for r in post:
                    o.register(float(r[2]), conv(r[3][0]))
                o.end_observations(float(end))
            ctx.count("statistics_compared")
            got, want = stat_getters(st), stat_getters(o)
            if got != want:
                g = next(k for k in want if got.get(k) != want[k])
                sig = "persistent-not-closed" if (kind == "persistent" and got.get("active") is True) else f"sim-statistic-differs:{kind}"
                ctx.viol(sig, {**where, "key": key, "via": via, "getter": g, "got": got.get(g), "ordinary": want[g],
                               "n_pre": len(pre), "n_post": len(post)})
                return
            if kind == "persistent" and post:
                # exact rational time average of the signal from the first post-warm-up observation to the end
                ex = ExactWeighted()
                last_t, pending = None, None
                for r in post:
                    t = Fraction(r[2])
                    if last_t is not None and t > last_t:
                        ex.add(t - last_t, pending)
                    if last_t is None or t > last_t:
                        last_t = t
                    pending = conv(r[3][0])
                if Fraction(end) > last_t:
                    ex.add(Fraction(end) - last_t, pending)
                exp = ex.expected()
                ctx.count("persistent_time_averages")
                for name, getter in (("weighted_mean", st.weighted_mean), ("weighted_sum", st.weighted_sum)):
                    w, tol = exp[name]
                    if not close(getter(), w, tol):
                        ctx.viol(f"persistent-time-average:{name}", {**where, "key": key, "got": getter(), "exact": w, "tol": tol})
                        return
            if pre and len(post) >= 2 and start < warm < end:
                nontrivial = True
        # ---- (5) every published value equals the getter at that moment
        for key, name, payload, val, ts in h.published:
            if val is None and name not in ("OBSERVATION_ADDED_EVENT", "INITIALIZED_EVENT"):
                continue
            if name in ("OBSERVATION_ADDED_EVENT", "INITIALIZED_EVENT"):
                continue
            ctx.count("published_values_compared")
            if fx(payload) != fx(val):
                ctx.viol(f"published-value-differs-from-getter:{name}", {**where, "key": key, "payload": fx(payload), "getter": fx(val)})
                return
        ctx.nontrivial = nontrivial
        ctx.seen("clock_kinds", prog["clock"])
    finally:
        h.cleanup()
