"""
C07 - end-to-end reproducibility: a run is a function of model, seeds and settings.
Monitor: cross-process differential runner.  Generated stochastic model programs with pub/sub fan-out
(several listeners per type that draw from shared streams and schedule events) are executed in child
interpreters that differ in PYTHONHASHSEED, in unrelated prior activity in the process (shifted event-id
counter, allocated objects, an unrelated earlier replication), in forced pauses and in injected sleeps;
every child prints a digest of (trace, notification stream, listener delivery order and draws, every
statistics getter as hex) and the parent compares all digests.  Delivery order is checked against
subscription order for every fired event.
"""
import json
import os
import subprocess

ID = "C07"
LEVEL = "exploration"
TECHNIQUE = "runtime monitor: cross-process differential digests (hash seed, process history, pauses, wall-clock speed varied) + per-fire delivery-order check"
RULE = ("each case is a batch of 6 generated stochastic programs (float/int/Duration clocks, seeded streams, stochastic "
        "delays, simulation statistics, 1-2 fan-out event types with 2-4 listeners each, in half of them fresh listeners subscribed to the simulator's warm-up notification in construct_model) executed by 12 child "
        "interpreters: PYTHONHASHSEED in {0, 1, 4242, 7, random} x prior activity in {none, 3000 events, objects + "
        "unrelated replication} x pauses x injected sleeps x bounded chunks (run_up_to, last chunk beyond the end) x an earlier replication that was paused, abandoned and cleaned up x leading step() calls x a pause requested by a TIME_CHANGED subscriber (stop() on the run thread) x earlier replications of the same experiment (half of the programs run as replication r with persistent streams re-seeded by a stream updater); non-trivial = program with >= 10 executed events, >= 4 "
        "listener deliveries and >= 2 listener draws; distinct = canonical program hash")
RULE += '; half of the statistics are also subscribed directly to a process-wide foreign event type that statistics of the unrelated earlier model listen to (such events are skipped)'
RULE += '; model fan-out is published through fire / fire_timed / fire_event / fire_timed_event alike'
ASSUMPTIONS = ["'independent of wall-clock speed' is observed through injected sleeps and forced pauses only",
               "event ids and object identities are never part of a digest; only their effect on order would show"]

BATCH = 6


def plan(tier):
    n = 72 if tier == "quick" else 2400
    return {"cases": n, "shards": 12, "timeout": 900 if tier == "quick" else 5400, "min_nontrivial": 24,
            "min": {"digests_compared": 500, "child_interpreters": 100, "delivery_orders_checked": 100}}


def gen_case(rng, tier, i):
    from vlib.proggen import gen_program, add_stats, add_streams, add_fanout
    progs = []
    for k in range(BATCH):
        clock = ["float", "duration", "int"][(i + k) % 3]
        p = gen_program(rng, clock=clock, n_events=rng.randint(8, 30), with_bad=False, with_cancel=rng.random() < 0.3,
                        horizon=rng.choice([20, 50]))
        add_streams(rng, p, n_draw=8)
        add_fanout(rng, p)
        if rng.random() < 0.5:
            from vlib.proggen import add_simlisteners
            # (only the warm-up notification: which TIME_CHANGED notifications a run produces depends on its segmentation
            # into bounded chunks by design, and START notifications on the pauses)
            add_simlisteners(rng, p, ("WARMUP_EVENT",))
        if rng.random() < 0.8:
            add_stats(rng, p, watch=False)
        import random as _random
        frng = _random.Random(1000 * i + k)         # (its own generator: the programs of earlier rounds stay as they were)
        for sp in p.get("stats", []):
            if sp.get("kind") in ("counter", "tally", "wtally", "persistent") and frng.random() < 0.5:
                # also subscribed directly to an event type it does not listen to; the 'objects' prior activity has
                # statistics that do listen to that type (events a statistic does not listen to are silently skipped)
                sp["foreign"] = True
        if k % 2 == 1:
            # run as replication r of an experiment: persistent streams re-seeded by a stream updater before initialize
            for sp in p["streams"]:
                sp.pop("via", None)
                sp.setdefault("seed", rng.choice([0, 10, rng.randint(1, 10 ** 6)]))
            p["experiment"] = {"updater": rng.choice(["simple", "table"]), "rep": rng.randint(0, 3),
                               "table": [rng.randint(0, 10 ** 6) for _ in range(4)], "default_first": rng.random() < 0.3,
                               "alias": rng.random() < 0.5}
        progs.append(p)
    cfgs = [{"hashseed": "0", "prior": "none", "pauses": [], "sleeps": False},
            {"hashseed": "1", "prior": "events", "pauses": [], "sleeps": False},
            {"hashseed": "4242", "prior": "objects", "pauses": [rng.randint(1, 5)], "sleeps": False},
            {"hashseed": str(rng.randint(2, 2 ** 32 - 1)), "prior": "none", "pauses": [rng.randint(1, 4), rng.randint(1, 4)], "sleeps": True},
            {"hashseed": str(rng.randint(2, 2 ** 32 - 1)), "prior": "events", "pauses": [], "sleeps": True},
            {"hashseed": "random", "prior": "objects", "pauses": [rng.randint(1, 9)], "sleeps": False},
            {"hashseed": "7", "prior": "none", "pauses": [], "sleeps": False,
             "chunks": sorted([rng.choice([0.1, 0.25, 0.4]), rng.choice([0.5, 0.75, 0.9])]) + [rng.choice([1.25, 2.0])]},
            {"hashseed": "11", "prior": "none", "pauses": [], "sleeps": False,
             "earlier_reps": rng.choice([[0], [0, 1], [0, 1, 2], [3, 1], [2, 2]])},
            {"hashseed": "13", "prior": "none", "pauses": [], "sleeps": False, "steps": rng.randint(2, 7)},
            {"hashseed": "17", "prior": "none", "pauses": [], "sleeps": False, "lstops": [rng.randint(1, 6)]},
            {"hashseed": "19", "prior": "none", "pauses": [], "sleeps": False, "abandoned": rng.randint(1, 6)},
            # bounded chunks that stop short of the end, the rest by a plain start() (which runs up to and including the end)
            {"hashseed": "23", "prior": "none", "pauses": [], "sleeps": False, "chunks": sorted([rng.choice([0.1, 0.3]), rng.choice([0.5, 0.8])])}]
    return {"programs": progs, "configs": cfgs}


def _child(path, cfg):
    from vlib import base
    env = base.child_env({"PYTHONHASHSEED": cfg["hashseed"]})
    r = subprocess.run([base.PY, "-B", "-m", "vlib.reprochild", path], env=env, capture_output=True, text=True, timeout=600)
    if r.returncode != 0 or not r.stdout.strip():
        raise RuntimeError("reproducibility child failed: " + r.stderr[-1500:])
    return json.loads(r.stdout)


def run_case(case, ctx):
    from vlib import base
    tmpd = os.path.join(base.ROOT, ".tmp")
    os.makedirs(tmpd, exist_ok=True)
    outs = []
    for ci, cfg in enumerate(case["configs"]):
        path = os.path.join(tmpd, f"c07-{os.getpid()}-{base.chash(case)}-{ci}.json")
        json.dump({"programs": case["programs"], **cfg}, open(path, "w"))
        try:
            outs.append(_child(path, cfg))
        finally:
            try:
                os.unlink(path)
            except OSError:
                pass
        ctx.count("child_interpreters")
    ref = outs[0]
    nontrivial = False
    for pi, prog in enumerate(case["programs"]):
        r0 = ref[pi]
        if not r0["ok"]:
            ctx.viol(f"run-failed:{r0.get('why')}", {"program_index": pi, "config": case["configs"][0]})
            return
        for cfg, o in zip(case["configs"], outs):
            r = o[pi]
            if not r["ok"]:
                ctx.viol(f"run-failed:{r.get('why')}", {"program_index": pi, "config": cfg})
                return
            ctx.count("delivery_orders_checked")
            if not r["order_ok"]:
                ctx.viol("listeners-not-notified-in-subscription-order", {"program_index": pi, "config": cfg})
                return
        for cfg, o in zip(case["configs"][1:], outs[1:]):
            r = o[pi]
            ctx.count("digests_compared")
            if cfg.get("steps"):
                # step() announces the time before every event (a run only when it changes): the notification stream itself
                # depends on the driver by design; what a TIME_CHANGED listener sees when the time does change must not
                parts = [k for k in r0["parts"] if k not in ("notifications", "time_changed_views") and r0["parts"][k] != r["parts"][k]]
                a_, b_ = dict(map(tuple, r0["views"])), dict(map(tuple, r["views"]))
                common = [t for t in a_ if t in b_]
                ctx.count("time_changed_views_compared", len(common))
                if any(a_[t] != b_[t] for t in common):
                    parts.append("time_changed_views")
                differs = bool(parts)
            elif cfg.get("chunks"):
                # a bounded run moves the clock to its bound without a TIME_CHANGED notification, so that stream depends
                # on the segmentation by design (bounded segmentation is C03's subject): everything else must agree
                parts = [k for k in r0["parts"] if k not in ("notifications", "time_changed_views") and r0["parts"][k] != r["parts"][k]]
                differs = bool(parts)
            else:
                parts = [k for k in r0["parts"] if r0["parts"][k] != r["parts"][k]]
                differs = r["digest"] != r0["digest"]
            if differs:
                varied = [k for k in ("hashseed", "prior", "pauses", "sleeps") if cfg[k] != case["configs"][0][k]]
                ctx.viol(f"digest-differs:{'+'.join(parts)}", {"program_index": pi, "config": cfg, "reference_config": case["configs"][0],
                                                             "varied": varied, "clock": prog["clock"],
                                                             "head_ref": r0["head"], "head_other": r["head"]})
                return
        if r0["n_events"] >= 10 and r0["n_deliveries"] >= 4 and r0["n_draws"] >= 2:
            nontrivial = True
        ctx.count("events_executed_in_reference_child", r0["n_events"])
        ctx.count("listener_deliveries_in_reference_child", r0["n_deliveries"])
    ctx.nontrivial = nontrivial
