"""
C14 - draws are a pure function of parameters and stream output, within the support.
Monitor: instrumented streams (vlib.streams_mon) around real seeded MersenneTwister sequences: twin
instances, interleaved instances, re-pointing to another stream with the old stream frozen, support check of
every draw, and a position sweep that splices extreme uniforms (0.0, subnormal, 2^-53, 0.5, 1-2^-53; single
and in adjacent pairs) into every position a draw consumes.  Parameter-domain probes at construction.
"""
import math

ID = "C14"
LEVEL = "exploration"
TECHNIQUE = "runtime monitor: instrumented StreamInterface (counting/freezing/splicing extreme uniforms) + twin/interleave/re-point differential draws + support oracle"
RULE = ("family 'cell': (class, parameter set) cells over all 19 concrete distribution classes with parameters from "
        "the documented domain inside a stated numeric envelope incl. closed end points; each cell runs twin, "
        "interleave, re-point(+frozen old stream), a shallow copy given its own stream, 100 support-checked draws, density evaluation and the splice "
        "sweep (single, adjacent pair, repeated at stride 2 and 3, run of 4); family 'domain': out-of-domain parameter sets must be refused at construction; family 'wrap': every "
        "QuantityDist wrapper; non-trivial(cell) = the splice sweep hit >= 10 spliced positions and the draw "
        "consumes >= 1 uniform; distinct = canonical (class, parameters) hash")
RULE += '; the instrumented stream is a user-written StreamInterface with positional-only methods and parameter names of its own'
RULE += '; a stream that raises once in the middle of a draw; the domain family has NaN in every range-constrained parameter position'
ASSUMPTIONS = ["numeric envelope: shape-like parameters in [0.05, 50], scales in [1e-3, 1e3], Poisson rate <= 2500, Erlang k <= 400, "
               "Binomial n <= 200, |mu| <= 5 and sigma in [1e-3, 5] for (log-)normal; beyond it float range, not sampler logic, decides",
               "'old stream never consumed again' is observed over the next 200 draws",
               "NaN parameters are not generated (NaN compares false with every documented bound)"]

EXT = ["zero", "subnormal", "min_mt", "half", "one_minus_ulp"]
_INF = {"n": 0}


def plan(tier):
    n = 5000 if tier == "quick" else 400000
    return {"cases": n, "shards": 16, "timeout": 900 if tier == "quick" else 3600, "min_nontrivial": 300,
            "min": {"draws_checked": 100000, "spliced_uniforms_delivered": 20000, "repoint_checks": 500}}


# ------------------------------------------------------------------------------------------- generators
def _shape(r):
    return r.choice([0.05, 0.3, 0.5, 0.999, 1.0, 1, 1.001, 2, 2.5, 9.5, 50, round(r.uniform(0.05, 50), 3)])


def _scale(r):
    return r.choice([1e-3, 0.1, 1.0, 1, 7.5, 1e3, round(10 ** r.uniform(-3, 3), 6)])


def _prob(r):
    return r.choice([0.0, 1.0, 0.5, 0.01, 0.99, 1e-9, round(r.random(), 6) or 0.5])


def _trunc(r):
    mu, sigma = r.choice([0.0, 1.0, -3.5, 10]), r.choice([1.0, 0.5, 2, 1e-3, 5])
    m = r.choice(["two", "lo", "hi", "tail", "narrow", "zero_lo"])
    if m == "two":
        lo, hi = mu - r.choice([0.5, 1, 2, 4]) * sigma, mu + r.choice([0.5, 1, 3]) * sigma
    elif m == "lo":
        lo, hi = mu - r.choice([0, 1, 3]) * sigma, math.inf
    elif m == "hi":
        lo, hi = -math.inf, mu + r.choice([0, 1, 3]) * sigma
    elif m == "tail":
        lo, hi = mu + 3 * sigma, mu + 4.2 * sigma
    elif m == "narrow":
        lo, hi = mu, mu + 0.01 * sigma
    else:
        mu = r.choice([1.0, 0.5, 2.0]) * sigma
        lo, hi = 0.0, mu + 50 * sigma
    return [mu, sigma, lo, hi]


def _tri(r):
    lo = r.choice([0, -5.0, 2.5, 1000, 1.7e9, 1e12])      # incl. windows at an epoch time: narrow relative to their position
    w = r.choice([1, 0.5, 10.0, 1e-3, 2.0])
    if not lo + w * 0.1 > lo:
        w = 1.0
    hi = lo + w
    mode = r.choice([lo, hi, lo + w / 2, lo + w * 0.1])
    return [lo, mode, hi]


GEN = {
    "DistBernoulli": lambda r: [_prob(r)],
    "DistBeta": lambda r: [_shape(r), _shape(r)],
    "DistBinomial": lambda r: [r.choice([1, 2, 10, 200, r.randint(1, 200)]), _prob(r)],
    "DistConstant": lambda r: [r.choice([0, 1.5, -7, 1e9])],
    "DistDiscreteUniform": lambda r: (lambda lo: [lo, lo + r.choice([1, 2, 6, 1000, 2 ** 40])])(r.choice([0, 1, -10, 10 ** 6])),
    "DistErlang": lambda r: [_scale(r), r.choice([1, 2, 5, 9, 10, 11, 40, 101, 172, 400])],
    "DistExponential": lambda r: [_scale(r)],
    "DistGamma": lambda r: [_shape(r), _scale(r)],
    "DistGeometric": lambda r: [_prob(r)],
    "DistLogNormal": lambda r: [r.choice([0.0, -5, 5, 1.5]), r.choice([1.0, 1e-3, 5, 0.5])],
    "DistNegBinomial": lambda r: [r.choice([1, 2, 5, 20]), _prob(r)],
    "DistNormal": lambda r: [r.choice([0.0, -5, 5, 100]), r.choice([1.0, 1e-3, 5, 1e3])],
    "DistNormalTrunc": _trunc,
    "DistPearson5": lambda r: [_shape(r), _scale(r)],
    "DistPearson6": lambda r: [_shape(r), _shape(r), _scale(r)],
    "DistPoisson": lambda r: [r.choice([1e-3, 0.5, 1.0, 1, 4.5, 30, 100, round(r.uniform(0.001, 100), 3), 700.0, 746, 1000.0, 2500])],
    "DistTriangular": _tri,
    "DistUniform": lambda r: (lambda lo, w: [lo, lo + w if lo + w > lo else lo + 1.0])(r.choice([0, -5.0, 2.5, 1000.0, 1.7e9, 1e12]), r.choice([1, 0.5, 1e-9, 1e9])),
    "DistWeibull": lambda r: [_shape(r), _scale(r)],
}

BAD = {
    "DistBernoulli": [[-0.1], [1.1], [2], ["x"]],
    "DistBeta": [[0, 1], [1, 0], [-1, 2], ["a", 1]],
    "DistBinomial": [[0, 0.5], [-1, 0.5], [5, -0.1], [5, 1.1], [2.5, 0.5], [5, "p"]],
    "DistConstant": [["c"], [None]],
    "DistDiscreteUniform": [[3, 3], [4, 3], [1.5, 3], [1, 3.5]],
    "DistErlang": [[0, 2], [-1, 2], [1, 0], [1, -3], [1, 2.5], ["s", 2]],
    "DistExponential": [[0], [-2.0], ["m"]],
    "DistGamma": [[0, 1], [1, 0], [-1, 1], [1, -1], ["a", 1]],
    "DistGeometric": [[-0.1], [1.1], [1], ["p"]],
    "DistLogNormal": [[0, 0], [0, -1], ["m", 1]],
    "DistNegBinomial": [[0, 0.5], [-2, 0.5], [3, -0.1], [3, 1.1], [2.5, 0.5]],
    "DistNormal": [[0, 0], [0, -1], ["m", 1], [0, "s"]],
    "DistNormalTrunc": [[0, 0, -1, 1], [0, 1, 1, 1], [0, 1, 2, 1], [0, 1, 8, 9], [0, 1, -40, -30], [0, 1, "a", 1],
                        # intervals whose probability lies just below the documented 1e-6 (3e-7, 2e-8, 2e-8)
                        [0, 1, 5, 6], [0, 1, -6, -5.5], [10, 2, 21, 30]],
    "DistPearson5": [[0, 1], [1, 0], [-1, 1], ["a", 1]],
    "DistPearson6": [[0, 1, 1], [1, 0, 1], [1, 1, 0], [1, 1, -1]],
    "DistPoisson": [[0], [-1.0], ["r"]],
    "DistTriangular": [[0, -1, 1], [0, 2, 1], [1, 1, 1], ["a", 1, 2]],
    "DistUniform": [[1, 1], [2, 1], ["a", 1]],
    "DistWeibull": [[0, 1], [1, 0], [-1, 1], [1, "b"]],
}
# not-a-number in every parameter position that has a documented range (NaN satisfies no range; the location parameter mu of
# the normal family has none and is not probed)
_NAN_BASE = {"DistBernoulli": [0.5], "DistBeta": [2.0, 3.0], "DistBinomial": [5, 0.5], "DistDiscreteUniform": [1, 6], "DistErlang": [1.0, 3],
             "DistExponential": [2.0], "DistGamma": [2.0, 1.0], "DistGeometric": [0.5], "DistLogNormal": [0.0, 1.0], "DistNegBinomial": [3, 0.5],
             "DistNormal": [0.0, 1.0], "DistNormalTrunc": [0.0, 1.0, -1.0, 1.0], "DistPearson5": [2.0, 1.0], "DistPearson6": [2.0, 3.0, 1.0],
             "DistPoisson": [3.0], "DistTriangular": [0.0, 0.5, 1.0], "DistUniform": [0.0, 1.0], "DistWeibull": [2.0, 1.0]}
for _c, _args in _NAN_BASE.items():
    for _i in range(len(_args)):
        if _i == 0 and _c in ("DistNormal", "DistLogNormal", "DistNormalTrunc"):
            continue
        BAD[_c] = BAD[_c] + [[("@nan" if _j == _i else _a) for _j, _a in enumerate(_args)]]
CLASSES = sorted(GEN)


def gen_case(rng, tier, i):
    nb = sum(len(v) for v in BAD.values())
    if i < nb:
        k = i
        for c in CLASSES:
            if k < len(BAD[c]):
                return {"fam": "domain", "cls": c, "args": BAD[c][k]}
            k -= len(BAD[c])
    i -= nb
    if i < 43:
        return {"fam": "wrap", "k": i}
    c = CLASSES[i % len(CLASSES)]
    return {"fam": "cell", "cls": c, "args": GEN[c](rng), "seed": rng.choice([rng.randint(1, 10 ** 9)] * 9 + [0, -rng.randint(1, 10 ** 6)])}   # 0 and negative seeds are seeds


# ------------------------------------------------------------------------------------------- oracle
def _support_ok(cls, args, d):
    if cls in ("DistBernoulli", "DistBinomial", "DistDiscreteUniform", "DistGeometric", "DistNegBinomial", "DistPoisson"):
        if type(d) is not int:
            return False
        if cls == "DistBernoulli":
            return d in (0, 1)
        if cls == "DistBinomial":
            return 0 <= d <= args[0]
        if cls == "DistDiscreteUniform":
            return args[0] <= d <= args[1]
        return d >= 0
    if cls == "DistConstant":
        return d == args[0]
    if not isinstance(d, float) or d != d:
        return False
    if math.isinf(d):
        _INF["n"] += 1      # the statement's inequalities are read literally (+inf >= 0, inf <= inf): counted, not judged
    if cls == "DistBeta":
        return 0.0 <= d <= 1.0
    if cls in ("DistErlang", "DistExponential", "DistGamma", "DistWeibull", "DistPearson5", "DistPearson6", "DistLogNormal"):
        return d >= 0.0
    if cls == "DistNormalTrunc":
        return args[2] <= d <= args[3]
    if cls == "DistTriangular":
        return args[0] <= d <= args[2]
    if cls == "DistUniform":
        return args[0] <= d <= args[1]
    return True


def _ptag(cls, args):
    """end-point tag of the probability parameter (known findings are keyed by mechanism, not by value)"""
    if cls in ("DistBernoulli", "DistGeometric"):
        p = args[0]
    elif cls in ("DistBinomial", "DistNegBinomial"):
        p = args[1]
    else:
        return "interior"
    return "p=0" if p == 0.0 else ("p=1" if p == 1.0 else "interior")


class _F(float):
    """a float subclass (numpy.float64 is one): still a float inside the documented domain"""


_PAT = {(0,): "", (0, 1): "-pair", (0, 2): "-repeated", (0, 2, 4): "-repeated", (0, 3): "-repeated", (0, 1, 2, 3): "-run"}


def _mk(cls, stream, args, wrap=False):
    from pydsol.core import distributions as D
    if wrap:
        args = [_F(a) if type(a) is float and a == a and abs(a) != math.inf else a for a in args]
    return getattr(D, cls)(stream, *args)


def _density(dist, x):
    if hasattr(dist, "probability_density"):
        return dist.probability_density(x)
    return dist.probability(x)


def run_case(case, ctx):
    from vlib.streams_mon import CountingStream, EXTREMES
    from vlib.base import fx
    fam = case["fam"]
    if fam == "domain":
        ctx.count("domain_probes")
        import math
        case = dict(case, args=[math.nan if a == "@nan" else a for a in case["args"]])
        try:
            _mk(case["cls"], CountingStream(1), case["args"])
        except (ValueError, TypeError):
            ctx.nontrivial = True
            return
        except Exception as e:
            ctx.viol(f"out-of-domain-wrong-exception:{case['cls']}:{type(e).__name__}", {"args": case["args"], "exc": repr(e)})
            return
        ctx.viol(f"out-of-domain-accepted:{case['cls']}", {"args": case["args"]})
        return
    if fam == "wrap":
        return _wrap(case, ctx)
    cls, args, seed = case["cls"], case["args"], case["seed"]
    info = {"cls": cls, "args": args, "seed": seed}
    ctx.seen("classes", cls)
    # ---- construction inside the documented domain must succeed and be usable
    try:
        s0 = CountingStream(seed)
        d0 = _mk(cls, s0, args)
    except Exception as e:
        ctx.viol(f"in-domain-rejected:{cls}:{type(e).__name__}", {**info, "exc": repr(e)})
        return
    base = []
    for k in range(100):
        try:
            v = d0.draw()
        except Exception as e:
            ctx.viol(f"draw-raises:{cls}:real-stream:{type(e).__name__}:{_ptag(cls, args)}", {**info, "draw_index": k, "exc": repr(e)})
            return
        ctx.count("draws_checked")
        if not _support_ok(cls, args, v):
            ctx.viol(f"draw-outside-support:{cls}", {**info, "draw_index": k, "value": repr(v)})
            return
        base.append(fx(v))
    per_draw = max(1, s0.calls // 100)
    try:
        for x in (d0.draw(), d0.draw()):
            p = _density(d0, x)
            if not (isinstance(p, (int, float)) and p >= 0):
                ctx.viol(f"density-negative-or-nan:{cls}", {**info, "x": repr(x), "p": repr(p)})
                return
    except OverflowError:
        ctx.count("density_overflow_at_a_drawn_point_not_judged")   # float range (heavy tails); densities are C15's subject
    except Exception as e:
        ctx.viol(f"density-raises-at-draw:{cls}:{type(e).__name__}", {**info, "exc": repr(e)})
        return
    # ---- the same parameters as float-subclass instances: accepted, identical draws
    if seed % 3 == 0 and any(type(a) is float for a in args):
        try:
            dw = _mk(cls, CountingStream(seed), args, wrap=True)
            for k in range(20):
                v = dw.draw()
                if fx(v) != base[k]:
                    ctx.viol(f"float-subclass-parameters-change-draws:{cls}", {**info, "draw_index": k})
                    return
            ctx.count("float_subclass_parameter_sets")
        except Exception as e:
            ctx.viol(f"in-domain-rejected:{cls}:float-subclass:{type(e).__name__}", {**info, "exc": repr(e)})
            return
    # ---- twin + interleaved instance
    sa, sb, sc = CountingStream(seed), CountingStream(seed), CountingStream(seed)
    da, db, dc = _mk(cls, sa, args), _mk(cls, sb, args), _mk(cls, sc, args)
    seq_b = []
    for k in range(60):
        va = da.draw()
        vb = db.draw()
        dc.draw(); dc.draw()        # an unrelated instance draws in between
        ctx.count("twin_comparisons")
        if fx(va) != base[k] or fx(vb) != base[k]:
            ctx.viol(f"instances-influence-each-other-or-twins-differ:{cls}", {**info, "draw_index": k, "solo": base[k], "a": fx(va), "b": fx(vb)})
            return
    if sa.calls != sb.calls:
        ctx.viol(f"twin-consumption-differs:{cls}", {**info, "calls": [sa.calls, sb.calls]})
        return
    # ---- re-pointing: old stream never consumed again; continuation equals a fresh instance on an equal-state stream
    for pre in (0, 1, 2, 3):
        old, new, ref = CountingStream(seed), CountingStream(seed + 7), CountingStream(seed + 7)
        d = _mk(cls, old, args)
        for _ in range(pre):
            d.draw()
        used = old.calls
        d.stream = new
        old.freeze()
        fresh = _mk(cls, ref, args)
        ctx.count("repoint_checks")
        for k in range(50 if pre else 200):
            a, b = d.draw(), fresh.draw()
            if fx(a) != fx(b):
                ctx.viol(f"repointed-differs-from-fresh:{cls}", {**info, "pre_draws": pre, "draw_index": k, "repointed": fx(a), "fresh": fx(b)})
                return
        if old.after_freeze or old.calls != used:
            ctx.viol(f"old-stream-consumed-after-repoint:{cls}", {**info, "pre_draws": pre, "calls_after": old.after_freeze})
            return
        if d.stream is not new:
            ctx.viol(f"stream-getter-after-repoint:{cls}", info)
            return
    # ---- built on the library's own stream class, later pointed at a user-written stream: what it draws then comes from that
    # stream (a fresh instance on an equal-state stream draws the same), and the library's stream is left alone
    from pydsol.core.streams import MersenneTwister as _MT
    for pre in (0, 2):
        plain, new, ref = _MT(seed), CountingStream(seed + 7), CountingStream(seed + 7)
        d = _mk(cls, plain, args)
        for _ in range(pre):
            d.draw()
        state = plain.save_state()
        d.stream = new
        fresh = _mk(cls, ref, args)
        ctx.count("repoint_checks")
        for k in range(20):
            try:
                a, b = d.draw(), fresh.draw()
            except Exception as e:
                ctx.viol(f"draw-raises-after-repoint:{cls}:{type(e).__name__}", {**info, "pre_draws": pre, "exc": repr(e)})
                return
            if fx(a) != fx(b) or new.calls != ref.calls:
                ctx.viol(f"repointed-differs-from-fresh:{cls}", {**info, "pre_draws": pre, "draw_index": k, "repointed": fx(a), "fresh": fx(b),
                                                                "built_on": "MersenneTwister", "uniforms_taken": [new.calls, ref.calls]})
                return
        if plain.save_state() != state:
            ctx.viol(f"old-stream-consumed-after-repoint:{cls}", {**info, "pre_draws": pre, "built_on": "MersenneTwister"})
            return
    # ---- a refused stream assignment (not a stream) changes nothing: the draws go on as those of an undisturbed twin
    for pre in (1, 2):
        sa_, sb_ = CountingStream(seed + 3), CountingStream(seed + 3)
        da_, db_ = _mk(cls, sa_, args), _mk(cls, sb_, args)
        for _ in range(pre):
            da_.draw(); db_.draw()
        for bogus in ("not a stream", None, 5):
            try:
                da_.stream = bogus
                ctx.viol(f"non-stream-accepted-as-stream:{cls}", {**info, "value": repr(bogus)})
                return
            except Exception:
                pass
        ctx.count("refused_stream_assignments", 3)
        if da_.stream is not sa_:
            ctx.viol(f"stream-getter-after-repoint:{cls}", {**info, "note": "after a refused assignment"})
            return
        for k in range(10):
            a, b = da_.draw(), db_.draw()
            if fx(a) != fx(b):
                ctx.viol(f"refused-stream-assignment-changed-the-draws:{cls}", {**info, "pre_draws": pre, "draw_index": k, "got": fx(a), "twin": fx(b)})
                return
    # ---- a copy of a distribution object that is given a stream of its own (copy.copy, then .stream = other): the original
    # goes on drawing from its own stream as if the copy did not exist, and the copy draws from the other stream only
    import copy
    for pre in (0, 2):
        own, other, town, tother = CountingStream(seed + 5), CountingStream(seed + 9), CountingStream(seed + 5), CountingStream(seed + 9)
        d, twin = _mk(cls, own, args), _mk(cls, town, args)
        for _ in range(pre):
            d.draw(); twin.draw()
        c = copy.copy(d)
        c.stream = other
        fresh = _mk(cls, tother, args)
        ctx.count("copies_given_a_stream_of_their_own")
        for k in range(12):
            a, b = d.draw(), twin.draw()
            x, y = c.draw(), fresh.draw()
            if fx(a) != fx(b) or own.calls != town.calls:
                ctx.viol(f"copy-with-its-own-stream-disturbs-the-original:{cls}", {**info, "pre_draws": pre, "draw_index": k, "original": fx(a), "undisturbed_twin": fx(b),
                                                                                  "uniforms_taken_from_own_stream": own.calls, "twin": town.calls})
                return
            if fx(x) != fx(y) or other.calls != tother.calls:
                ctx.viol(f"copy-does-not-draw-from-its-own-stream:{cls}", {**info, "pre_draws": pre, "draw_index": k, "copy": fx(x), "fresh": fx(y)})
                return
        if d.stream is not own or c.stream is not other:
            ctx.viol(f"stream-getter-after-repoint:{cls}", {**info, "note": "after a copy was given its own stream"})
            return
    # ---- a stream fault in the middle of a draw (the stream raises once, before delivering): the exception reaches the caller
    # and the draws that follow are computed from the numbers delivered from then on - those of a fresh instance on a stream
    # in the same state
    from vlib.streams_mon import StreamFault
    for pre in (0, 1, 2, 3):
        for j in (0, 1, 2):
            s_ = CountingStream(seed + 13)
            d = _mk(cls, s_, args)
            for _ in range(pre):
                d.draw()
            s_.fail_at = s_.calls + j
            try:
                d.draw()
            except StreamFault:
                pass
            except Exception as e:
                ctx.viol(f"stream-fault-surfaces-as-another-exception:{cls}:{type(e).__name__}", {**info, "pre_draws": pre, "fault_at_call": j, "exc": repr(e)})
                return
            if not s_.failed:
                s_.fail_at = None
                continue            # this draw takes fewer numbers than j + 1
            ctx.count("stream_faults_injected")
            ref = CountingStream(seed + 13)
            ref.restore_state(s_.save_state())
            fresh = _mk(cls, ref, args)
            for k in range(12):
                a, b = d.draw(), fresh.draw()
                if fx(a) != fx(b):
                    ctx.viol(f"draws-after-a-stream-fault-differ-from-fresh:{cls}", {**info, "pre_draws": pre, "fault_at_call": j, "draw_index": k, "got": fx(a), "fresh": fx(b)})
                    return
    # ---- the same stream object re-seeded and assigned again (what a model does between replications with long-lived
    # distribution objects): the draws that follow equal those of a fresh instance on an equally seeded stream
    for pre in (1, 2, 3):
        same, ref = CountingStream(seed), CountingStream(seed + 11)
        d = _mk(cls, same, args)
        for _ in range(pre):
            d.draw()
        # (pre == 2: seeded again with the seed it already has - the same replication run twice)
        newseed = seed if pre == 2 else seed + 11
        ref = CountingStream(newseed)
        same.set_seed(newseed)
        d.stream = same
        fresh = _mk(cls, ref, args)
        ctx.count("reseed_and_reassign_checks")
        for k in range(30):
            a, b = d.draw(), fresh.draw()
            if fx(a) != fx(b):
                ctx.viol(f"reseeded-and-reassigned-differs-from-fresh:{cls}", {**info, "pre_draws": pre, "draw_index": k, "reassigned": fx(a), "fresh": fx(b)})
                return
    # ---- splice sweep: every position the first draws consume x extreme uniforms (single and adjacent pairs)
    K = min(max(3 * per_draw, 4), 24)
    hits = 0
    for ename in EXT:
        e = EXTREMES[ename]
        # patterns: single, adjacent pair, and the same extreme repeated at the stride of a retry loop (a sampler that
        # redraws once after a degenerate value must survive a second degenerate value)
        for width, offsets in ((1, (0,)), (2, (0, 1)), (3, (0, 2)), (5, (0, 2, 4)), (4, (0, 3)), (4, (0, 1, 2, 3))):
            for pos in range(K):
                s = CountingStream(seed)
                for w in offsets:
                    s.splice[pos + w] = e
                d = _mk(cls, s, args)
                guard = 0
                while s.calls <= pos + width - 1 + per_draw and guard < 80:
                    guard += 1
                    before = s.calls
                    try:
                        v = d.draw()
                    except Exception as ex:
                        ctx.viol(f"draw-raises:{cls}:{ename}{_PAT[offsets]}:{type(ex).__name__}",
                                 {**info, "uniform": ename, "value": repr(e), "position": pos, "width": width, "exc": repr(ex)})
                        guard = 999
                        break
                    ctx.count("draws_checked")
                    if not _support_ok(cls, args, v):
                        ctx.viol(f"draw-outside-support:{cls}:{ename}{_PAT[offsets]}",
                                 {**info, "uniform": ename, "position": pos, "width": width, "value": repr(v)})
                        guard = 999
                        break
                    if s.calls == before:
                        break       # this class consumes no uniforms
                hits += s.spliced_hits
                ctx.count("spliced_uniforms_delivered", s.spliced_hits)
                if guard == 999:
                    break
            else:
                continue
            break
    ctx.count("infinite_draws_observed_not_judged", _INF["n"])
    _INF["n"] = 0
    ctx.nontrivial = hits >= 10 and s0.calls > 0


def _wrap(case, ctx):
    from pydsol.core import units as U
    from pydsol.core.distributions import DistUniform, DistExponential
    from vlib.streams_mon import CountingStream
    from vlib.base import fx
    names = sorted(n for n in dir(U) if n.endswith("Dist") and n not in ("QuantityDist",) and isinstance(getattr(U, n), type))
    if case["k"] >= len(names):
        return
    W = getattr(U, names[case["k"]])
    ctx.seen("wrappers", W.__name__)
    if W is U.SIDist:
        units = ["m/s", "kg.m2/s2"]
        q = None
    else:
        q = W.quantity
        us = list(q._units)
        units = [q._baseunit, us[len(us) // 2]]
    for unit in units:
        s1, s2 = CountingStream(5), CountingStream(5)
        w = W(DistUniform(s1, 1, 3), unit)
        ref = DistUniform(s2, 1, 3)
        for k in range(20):
            ctx.count("wrapper_draws")
            try:
                a = w.draw()
            except Exception as e:
                ctx.viol(f"wrapper-draw-raises:{type(e).__name__}", {"wrapper": W.__name__, "unit": unit, "exc": repr(e)})
                return
            b = ref.draw()
            if q is not None:
                want = q(b, unit)
                if type(a) is not q or fx(float(a)) != fx(float(want)) or a.unit != unit:
                    ctx.viol("wrapper-draw-differs", {"wrapper": W.__name__, "unit": unit, "got": [type(a).__name__, fx(float(a))], "want": fx(float(want))})
                    return
            else:
                want = U.SI(1.0, unit) * b
                if type(a) is not U.SI or fx(float(a)) != fx(float(want)) or list(a.sisig()) != list(want.sisig()):
                    ctx.viol("wrapper-draw-differs", {"wrapper": "SIDist", "unit": unit})
                    return
        if s1.calls != s2.calls:
            ctx.viol("wrapper-consumption-differs", {"wrapper": W.__name__})
            return
    if q is not None:
        try:
            W(DistUniform(CountingStream(1), 1, 3), "no-such-unit")
            ctx.viol("wrapper-accepts-undeclared-unit", {"wrapper": W.__name__})
        except ValueError:
            pass
    ctx.nontrivial = True
