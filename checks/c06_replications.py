"""
C06 - replications are isolated: re-initialising gives a fresh, reproducible run.
Monitor: differential.  A simulator is driven through a generated prior history (never started / stepped /
paused at an event / bounded run / ended / paused by a handler fault / cleaned up / initialise refused
while running), then initialised again and run to the end; trace, clocks, every statistics getter (hex
floats), the notification stream and the output-statistic map of that replication are compared with the
same replication on a brand-new simulator and model.
"""
import os
import time
import sys

ID = "C06"
LEVEL = "exploration"
TECHNIQUE = "runtime monitor: differential comparison (re-initialised simulator vs brand-new simulator) of trace, notification stream and all statistics getters after generated prior histories"
RULE = ("seeded model programs with seeded streams (re-created in construct_model), stochastic delays and "
        "SimCounter/SimTally/SimWeightedTally/SimPersistent created in construct_model (30% register part of their first events once with add_initial_method), x prior history in {fresh, "
        "stepped k, paused at event k, bounded run, ended, paused by a handler fault, cleaned up, initialise while "
        "running (must be refused)}; non-trivial = prior history executed >= 1 event or left events pending, the "
        "model has >= 1 statistic and the second replication executed >= 3 events; distinct = canonical (program, "
        "history) hash; plus 24 (thorough 240) cases on a model-defined fixed-time-step simulator derived from the Simulator base class (initialize from inside a step / a run / a bounded run must be refused and change nothing; a later replication is fresh and identical)")
RULE += '; half of the event-fed counters and tallies are fed by a producer that outlives the replications'
ASSUMPTIONS = ["streams are re-created with the same seed in construct_model (not doing so is a model error, not generated)",
               "the second replication uses the same model object and the same replication settings",
               "a producer that outlives the replications (statistics rebuilt, producer kept) is generated for counters and tallies only: the statistic of the earlier replication stays subscribed to it, harmless there, while a stale SimPersistent refuses the new replication's earlier time stamps - unsubscribing it is the model's business (like re-creating its streams)"]

HIST = ["fresh", "step", "pause", "bounded", "ended", "fault", "cleanup", "init_while_running", "ended_twice", "end_replication",
        "init_while_starting", "touched", "other_model", "longer_before", "chained"]


NTICK = {"quick": 24, "thorough": 240}


def plan(tier):
    n = (3600 if tier == "quick" else 90000) + NTICK[tier]
    return {"cases": n, "shards": 12, "timeout": 900 if tier == "quick" else 5400, "min_nontrivial": 100,
            "min": {"replications_compared": 500, "statistic_getters_compared": 5000, "refused_initialize_while_running": 20}}


def gen_case(rng, tier, i):
    from vlib.proggen import gen_program, add_stats, add_streams
    base_n = 3600 if tier == "quick" else 90000
    if i >= base_n:
        # a model-defined simulator of another formalism (fixed time step), derived from the library's Simulator base class
        # as its documentation describes: what the statement says about initialising holds for it too
        j = i - base_n
        return {"fam": "tick", "driver": ["start", "step", "run_up_to"][j % 3], "at": 1 + (j // 3) % 4, "length": rng.choice([6, 10]),
                "start": rng.choice([0.0, 0.0, 5.0]), "earlier": (j // 12) % 2}
    clock = ["float", "float", "duration", "int"][(i // len(HIST)) % 4]      # every history meets every clock
    # (one case in seven: a replication that starts before the simulator's own initial time - at a negative time)
    prog = gen_program(rng, clock=clock, n_events=rng.randint(4, 25), with_bad=False, start_at=(-10 if i % 7 == 3 else None))
    if rng.random() < 0.85:
        add_stats(rng, prog, watch=False, plain=True)
    if rng.random() < 0.7:
        add_streams(rng, prog)
        if rng.random() < 0.5:
            from vlib.proggen import add_simlisteners
            add_simlisteners(rng, prog, ("WARMUP_EVENT", "TIME_CHANGED_EVENT", "START_EVENT"))
    hist = HIST[i % len(HIST)]
    for sp in prog.get("stats", []):
        if sp.get("via") == "event" and sp["kind"] in ("counter", "tally", "wtally") and rng.random() < 0.5:
            sp["keep_producer"] = True      # the producer feeding this statistic outlives the replications (statistics are rebuilt, it is not)
    if rng.random() < 0.25 and hist != "fault":
        # a model with failing handlers on a simulator whose error strategy was chosen once, when it was set up (log / warn and
        # continue): the setting is in force in every replication
        tags = sorted({a[-1] for acts in [prog["init"]] + list(prog["handlers"].values()) for a in acts
                       if a[0] in ("rel", "abs", "now", "ev", "drawrel") and isinstance(a[-1], str)})
        if tags:
            for t in rng.sample(tags, min(len(tags), rng.randint(1, 2))):
                acts = prog["handlers"].setdefault(t, [])
                acts.insert(rng.randint(0, len(acts)), ["raise", "exc"])
            prog["strategy"] = rng.choice(["log", "warn"])
    return {"prog": prog, "hist": hist, "k": rng.randint(1, 5), "cut": rng.randint(0, 40)}


def shard_setup(tier, ctx):
    sink = open(os.devnull, "w")
    sys.stdout = sink
    sys.stderr = sink


def shard_teardown(tier, ctx):
    from vlib import simharness
    simharness.cleanup_all()
    sys.stdout = sys.__stdout__
    sys.stderr = sys.__stderr__


def _observe_replication(h, first_h, first_n):
    from vlib.simharness import stat_getters
    return {"trace": h.trace(first_h),
            "notifications": [(n[0], n[1]) for n in h.nlog[first_n:]],
            "stats": {k: stat_getters(st) for k, st in sorted(h.stats.items())},
            "registered": sorted(h.model.output_statistics().keys()),
            "identity": all(h.model.get_output_statistic(k) is st for k, st in h.stats.items()),
            "clock": float(h.sim.simulator_time), "state": (h.sim.run_state.name, h.sim.replication_state.name)}


def _tick_case(case, ctx):
    import threading
    from pydsol.core.experiment import SingleReplication
    from pydsol.core.model import DSOLModel
    from pydsol.core.simulator import Simulator, RunState, ReplicationState
    from pydsol.core.utils import DSOLError

    class TickSimulator(Simulator):
        def __init__(self, name):
            super().__init__(name, float, 0.0)

        def _tick(self):
            t = self.simulator_time + 1.0
            self.fire_timed(t, Simulator.TIME_CHANGED_EVENT, t)
            self._simulator_time = t
            self.model.tick()

        def _step_impl(self):
            if self.simulator_time + 1.0 <= self.replication.end_sim_time:
                self._tick()

        def _run(self):
            self._runflag = True
            while not self.is_stopping_or_stopped():
                if self.simulator_time + 1.0 > self._run_until_time:
                    if self._run_until_time >= self.replication.end_sim_time:
                        self._replication_state = ReplicationState.ENDING
                    self._run_state = RunState.STOPPING
                    return
                self._tick()

    class Model(DSOLModel):
        def __init__(self, simulator):
            super().__init__(simulator)
            self.constructed, self.ticks, self.attempt_at, self.verdict = 0, [], None, None

        def construct_model(self):
            self.constructed += 1
            self.ticks = []

        def tick(self):
            t = self.simulator.simulator_time
            self.ticks.append(t)
            if self.attempt_at is not None and len(self.ticks) == self.attempt_at and self.verdict is None:
                try:
                    self.simulator.initialize(self, SingleReplication("again", start, 0.0, float(case["length"])))
                    self.verdict = "accepted"
                except DSOLError:
                    self.verdict = "refused"
                except Exception as e:
                    self.verdict = type(e).__name__

    start = case["start"]
    where = dict(case)
    sim = TickSimulator("tick")
    model = Model(sim)

    def quiet(timeout=20.0):
        w = getattr(sim, "_Simulator__worker", None)
        t0 = time.time()
        while w is not None and w.is_alive() and not (w.is_waiting() and not w.is_running()
                                                        and not getattr(w, "_SimulatorWorkerThread__wakeup_flag").is_set()):
            time.sleep(0.0005)
            if time.time() - t0 > timeout:
                return False
        return True

    def run_to_end():
        if case["driver"] == "step":
            for _ in range(case["at"]):
                sim.step()
        elif case["driver"] == "run_up_to":
            sim.run_up_to(start + case["length"] / 2 + 0.5)
            if not quiet():
                return False
        if sim.run_state.name != "ENDED":
            sim.start()
        return quiet()
    try:
        rep = SingleReplication("first", start, 0.0, float(case["length"]))
        if case["earlier"]:
            sim.initialize(model, SingleReplication("earlier", start, 0.0, float(case["length"]) / 2))
            sim.start()
            quiet()
        sim.initialize(model, rep)
        built = model.constructed
        if sim.simulator_time != start or model.ticks:
            ctx.viol("tick-simulator:clock-not-at-the-replication-start-after-initialize", {**where, "clock": sim.simulator_time})
            return
        model.attempt_at = case["at"]
        if not run_to_end():
            ctx.viol("hang:tick-simulator", where)
            return
        ctx.count("refused_initialize_while_running")
        ctx.count("model-defined_simulator_cases")
        want = [start + k for k in range(1, case["length"] + 1)]
        if model.verdict != "refused":
            ctx.viol(f"initialize-while-running-not-refused:model-defined-simulator:{case['driver']}:{model.verdict}", {**where, "ticks": model.ticks[:12], "constructed": model.constructed - built})
            return
        if model.constructed != built or model.ticks != want or sim.run_state.name != "ENDED" or sim.simulator_time != start + case["length"]:
            ctx.viol("refused-initialize-changed-the-run:model-defined-simulator", {**where, "ticks": model.ticks[:14], "state": sim.run_state.name, "clock": sim.simulator_time})
            return
        first = list(model.ticks)
        # ---- and a new replication afterwards is a fresh one
        model.attempt_at = None
        sim.initialize(model, rep)
        if sim.simulator_time != start or model.constructed != built + 1 or model.ticks or (sim.run_state.name, sim.replication_state.name) != ("INITIALIZED", "INITIALIZED"):
            ctx.viol("tick-simulator:not-fresh-after-initialize", {**where, "clock": sim.simulator_time, "constructed": model.constructed - built, "state": sim.run_state.name})
            return
        sim.start()
        if not quiet() or model.ticks != first or sim.simulator_time != start + case["length"]:
            ctx.viol("second-replication-differs:model-defined-simulator", {**where, "first": first[:14], "second": model.ticks[:14]})
            return
        ctx.nontrivial = True
    finally:
        try:
            sim.cleanup()
        except Exception:
            pass


def run_case(case, ctx):
    import copy
    if case.get("fam") == "tick":
        return _tick_case(case, ctx)
    from vlib.simharness import Harness
    from vlib.refdevs import tnum
    prog, hist = case["prog"], case["hist"]
    where = {"clock": prog["clock"], "history": hist, "k": case["k"]}
    if prog.get("strategy"):
        ctx.count("cases_with_failing_handlers_under_a_strategy_set_once")
        where["strategy"] = prog["strategy"]
    # ---- brand-new simulator and model: the reference replication
    fresh = Harness(prog, "fresh")
    a = Harness(_history_program(prog, hist), "reused")
    try:
        # the replication under test (and the reference) is driven by start(), or - k = 2 - by one step() first
        def drive(hh):
            if case["k"] == 2:
                if hh.cmd("step") != "ok" or not hh.wait_quiescent(20):
                    return False
                if hh.sim.run_state.name == "ENDED":
                    return True
            return hh.cmd("start") == "ok" and hh.wait_quiescent(20)
        if fresh.cmd("initialize") != "ok" or not drive(fresh):
            ctx.viol("reference-replication-failed", where)
            return
        want = _observe_replication(fresh, 0, 0)
        # ---- prior history on the simulator under test
        normal = a.replication
        if hist == "longer_before":
            # the earlier replication had a three times longer run length (a pilot run): its clock ends beyond the end
            # of the replication that is initialised next
            from pydsol.core.experiment import SingleReplication
            from vlib.simharness import time_value
            r = prog["rep"]
            a.replication = SingleReplication("pilot", time_value(prog, r["start"]), time_value(prog, r["warmup"]), time_value(prog, r["length"]) * 3)
        out = a.cmd("initialize")
        if out != "ok":
            ctx.viol(f"first-initialize-raises:{out}", where)
            return
        start, length = tnum(prog, prog["rep"]["start"]), tnum(prog, prog["rep"]["length"])
        if hist == "step":
            for _ in range(case["k"]):
                a.cmd("step")
        elif hist == "pause":
            a.start_and_pause_after(case["k"])
        elif hist == "bounded":
            b = start + (case["cut"] % max(1, int(length)))
            lit = [float(b), "s"] if prog["clock"] == "duration" else (int(b) if prog["clock"] == "int" else float(b))
            a.cmd("run_up_to_including", lit)
        elif hist == "longer_before":
            if case["k"] % 2:
                a.cmd("start")
            else:
                b = start + 2 * length
                a.cmd("run_up_to_including", [float(b), "s"] if prog["clock"] == "duration" else b)
            a.wait_quiescent(20)
            a.replication = normal
        elif hist == "chained" and case["k"] not in (1, 3):
            a.cmd("start")       # (only a fifth of these cases chain: initialising from the run thread costs the library's own waits, ~2 s)
        elif hist == "chained":
            # the next replication is initialised from inside the END_REPLICATION notification of this one (an experiment
            # driver chaining replications on the run thread)
            chained = {}

            def on_end(name, event):
                # (k == 3: one notification earlier - from the STOP notification of the run that reached the end)
                if name == ("END_REPLICATION_EVENT" if case["k"] == 1 else "STOP_EVENT") and "out" not in chained:
                    chained["first_h"], chained["first_n"], chained["n_inits"] = len(a.hlog), len(a.nlog), a.inits
                    chained["old_worker"] = a.worker()
                    chained["out"] = a.cmd("initialize")
            a.on_notify = on_end
            a.cmd("start")
            t0 = time.time()
            while "out" not in chained and time.time() - t0 < 20:
                time.sleep(0.001)
            a.on_notify = None
            if chained.get("old_worker") is not None:
                chained["old_worker"].join(5.0)
        elif hist in ("ended", "ended_twice"):
            a.cmd("start")
        elif hist == "fault":
            a.cmd("start")          # the history program has a failing handler under WARN_AND_PAUSE
        elif hist == "end_replication":
            for _ in range(case["k"]):
                a.cmd("step")
            a.cmd("end_replication")
        elif hist == "init_while_starting":
            # initialize() issued from a listener while start() is in progress (state STARTING): must be refused and must
            # not touch the replication that is being started
            res = {}

            def on_notify(name, event):
                if name in ("STARTING_EVENT", "START_REPLICATION_EVENT") and "out" not in res and (case["k"] % 2 == (name == "STARTING_EVENT")):
                    res["before"] = a.sim.eventlist().size()
                    n_inits = a.inits
                    res["out"] = a.cmd("initialize")
                    res["after"] = a.sim.eventlist().size()
                    res["constructed"] = a.inits != n_inits
            a.on_notify = on_notify
            a.cmd("step" if case["k"] == 4 else "start")       # (a step is 'running' too while it notifies the replication start)
            a.wait_quiescent(20)
            if case["k"] == 4:
                a.cmd("start")
                a.wait_quiescent(20)
            a.on_notify = None
            if "out" in res:
                ctx.count("refused_initialize_while_running")
                if res["out"] == "ok" or res["constructed"]:
                    ctx.viol("initialize-while-running-accepted", {**where, "outcome": res["out"]})
                    return
                if res["after"] != res["before"]:
                    ctx.viol("refused-initialize-changed-state", {**where, "pending_before": res["before"], "pending_after": res["after"]})
                    return
                first = _observe_replication(a, 0, 0)
                # (driven by step + start the START listeners of the model draw once more than in the reference run: only the
                # refusal itself is judged there)
                if case["k"] not in (2, 4) and (first["trace"] != want["trace"] or first["stats"] != want["stats"]):
                    ctx.viol("refused-initialize-disturbed-the-run", {**where, "got": str(first["trace"])[:400], "fresh": str(want["trace"])[:400]})
                    return
        elif hist == "other_model":
            # the simulator serves a second model object (same program) in between, then the first model again
            other = type(a.model)(a.sim)
            a.sim.__dict__["_verif_in_init"] = True
            try:
                a.sim.initialize(other, a.replication)
            finally:
                a.sim.__dict__["_verif_in_init"] = False
            for _ in range(case["k"]):
                a.cmd("step")
        elif hist == "touched":
            # initialised, never started, but used from outside: an extra event scheduled, streams drawn from, statistics fed
            try:
                a.sim.schedule_event_rel(tnum_lit(prog, 1), a.model, "h", 5, tag="zz_extra")
            except Exception:
                pass
            for st in a.streams.values():
                st.next_float(); st.next_int(0, 9)
            for key, st in a.stats.items():
                try:
                    kind = next(sp["kind"] for sp in prog["stats"] if sp["key"] == key)
                    if kind == "counter":
                        st.register(3)
                    elif kind == "wtally":
                        st.register(1.0, 2.0)
                    elif kind == "persistent":
                        st.register(float(a.sim.simulator_time), 4.0)
                    else:
                        st.register(2.5)
                except Exception:
                    pass
        elif hist == "cleanup":
            a.cmd("step")
            a.cmd("cleanup")
        elif hist == "init_while_running":
            a.pause_gate = None
            from vlib.simharness import Gate
            a.pause_gate = Gate()
            a.pause_at = a.exec_count + 1
            if a.cmd("start") == "ok" and a.pause_gate.reached.wait(5.0):
                before = a.snapshot()
                n_inits = a.inits
                out = a.cmd("initialize")
                ctx.count("refused_initialize_while_running")
                if out == "ok" or a.inits != n_inits:
                    ctx.viol("initialize-while-running-accepted", {**where, "outcome": out})
                    a.pause_gate.open.set()
                    return
                snap = a.snapshot()
                if snap["run_state"] != before["run_state"] or snap["pending"] != before["pending"] or snap["clock"] != before["clock"]:
                    ctx.viol("refused-initialize-changed-state", {**where, "before": before, "after": snap})
                    a.pause_gate.open.set()
                    return
            a.pause_at = None
            a.pause_gate.open.set()
        if not a.wait_quiescent(20):
            ctx.viol("hang:history-did-not-reach-quiescence", {**where, "snapshot": a.snapshot()})
            return
        executed_before = len(a.hlog)
        pending_before = a.sim.eventlist().size()
        if hist == "ended_twice":
            if a.cmd("initialize") != "ok" or a.cmd("start") != "ok" or not a.wait_quiescent(20):
                ctx.viol("intermediate-replication-failed", where)
                return
        # ---- the replication under test: same model object, model program without the history's fault
        a.prog = prog
        a.max_exec += 10 ** 6
        if prog.get("strategy") is None:
            from pydsol.core.simulator import ErrorStrategy
            a.sim.set_error_strategy(ErrorStrategy.WARN_AND_PAUSE)
        _swap_program(a, prog)
        first_h, first_n = len(a.hlog), len(a.nlog)
        n_inits = a.inits
        if hist == "chained" and case["k"] in (1, 3) and "out" in chained:
            first_h, first_n, n_inits, out = chained["first_h"], chained["first_n"], chained["n_inits"], chained["out"]
            ctx.count("replications_initialised_from_the_END_REPLICATION_notification")
        else:
            out = a.cmd("initialize")
        if out != "ok":
            ctx.viol(f"re-initialize-raises:{out}", {**where, "state_before": hist})
            return
        if a.inits != n_inits + 1:
            ctx.viol("model-not-rebuilt-through-construct_model", {**where, "construct_model_calls": a.inits - n_inits})
            return
        snap = a.snapshot()
        fresh2 = Harness(prog, "fresh2")
        try:
            fresh2.cmd("initialize")
            fsnap = fresh2.snapshot()
        finally:
            fresh2.cleanup()
        ctx.count("post_initialize_snapshots")
        from vlib.refdevs import Ref
        r0 = Ref(prog)
        r0.initialize()
        if snap["pending"] != len(r0.pending) or snap["clock"] != r0.start:
            ctx.viol("state-right-after-initialize:not-construct-events-plus-one-warmup", {**where, "got": snap, "want_pending": len(r0.pending),
                                                                                          "want_clock": r0.start})
            return
        if hist == "chained" and case["k"] == 3 and snap.get("run_state") == "STOPPED":
            # initialised from inside the STOP notification: the old run thread writes STOPPED after the notification returns
            # (a command overlapping the run thread's own transition - C04's subject and among its known findings); the
            # replication itself is judged
            snap = dict(snap, run_state=fsnap["run_state"])
            ctx.count("replications_initialised_from_the_STOP_notification")
        if snap != fsnap:
            ctx.viol("state-right-after-re-initialize", {**where, "got": snap, "fresh": fsnap})
            return
        if not drive(a):
            ctx.viol("second-replication-did-not-run", {**where, "snapshot": a.snapshot()})
            return
        got = _observe_replication(a, first_h, first_n)
        ctx.count("replications_compared")
        ctx.count("statistic_getters_compared", sum(len(v) for v in got["stats"].values()))
        for part in ("trace", "clock", "state", "registered", "identity", "notifications", "stats"):
            if got[part] != want[part]:
                detail = {**where, "part": part}
                if part == "stats":
                    k = next(k for k in want["stats"] if got["stats"].get(k) != want["stats"][k])
                    g = next(g for g in want["stats"][k] if got["stats"].get(k, {}).get(g) != want["stats"][k][g])
                    detail.update({"statistic": k, "getter": g, "got": got["stats"].get(k, {}).get(g), "fresh": want["stats"][k][g]})
                else:
                    detail.update({"got": str(got[part])[:600], "fresh": str(want[part])[:600]})
                ctx.viol(f"second-replication-differs:{part}", detail)
                return
        nw = sum(1 for n in got["notifications"] if n[0] == "WARMUP_EVENT")
        if nw != sum(1 for n in want["notifications"] if n[0] == "WARMUP_EVENT") or nw > 1 or (r0.warm <= r0.end and nw != 1):
            ctx.viol("warmup-notifications", {**where, "count": nw})
            return
        ctx.nontrivial = (executed_before >= 1 or pending_before >= 1) and bool(prog.get("stats")) and len(got["trace"]) >= 3
        ctx.seen("histories", hist)
    finally:
        fresh.cleanup()
        a.cleanup()


def tnum_lit(prog, v):
    from vlib.simharness import time_value
    return time_value(prog, v) if prog["clock"] != "int" else int(v)


def _history_program(prog, hist):
    """the program the simulator runs *before* the replication under test"""
    import copy
    if hist != "fault":
        return prog
    p = copy.deepcopy(prog)
    p["strategy"] = "pause"
    # make the first handler that exists fail
    for tag, acts in p["handlers"].items():
        acts.insert(0, ["raise"])
        break
    return p


def _swap_program(h, prog):
    """handlers look their actions up in h.prog at run time; nothing else to do"""
    h.prog = prog
