"""
C15 - samplers agree with their declared density, probability and cumulative functions.
Monitor: for every (class, parameter) cell the declared density/probability is compared pointwise with an
independent closed form (scipy.stats under the documented parameterisation), checked for sign, support and
normalisation (adaptive quadrature / window sums), and a large seeded sample of real draws is tested against
the closed-form cdf (Kolmogorov-Smirnov) and equiprobable bins / pmf (chi-square) with a two-stage verdict.
cdf / inverse cdf / erf_inv are checked for monotonicity, consistency with the density and mutual inversion.
"""
import math

ID = "C15"
LEVEL = "exploration"
TECHNIQUE = "runtime monitor: seeded samples of real draws vs closed-form cdf/pmf (KS + chi-square, two-stage), declared density vs independent closed form, quadrature, cdf/icdf round trips"
RULE = ("cases enumerate a fixed grid of (class, parameter) cells reaching every algorithmic branch (gamma shape <1, "
        "=1, >1; Erlang k = 9/10/11/40/100/101/120/170/172/400; one-/two-sided and tail truncation; triangular modes at the bounds; discrete "
        "distributions at small and large p) followed by seeded random cells in the C14 envelope, plus one 'erf_inv' "
        "case; stage 1: n = 20000 draws, flag at p < 1e-5; stage 2 (flagged only): fresh seed, n = 300000, violation "
        "iff p < 1e-7 again; probabilities are asked again after integral-valued floats / bools / non-integers on the same and on an equal fresh instance; cdf outside the support and inverse cdf at 0, 1 and outside [0, 1]; non-trivial = cell with a non-degenerate distribution whose sample passed through both "
        "tests; distinct = canonical (class, parameters) hash")
RULE += '; for the truncated normal also the cdf pair of the distribution before truncation'
ASSUMPTIONS = ["false-alarm probability per statistical test <= 1e-12 (two independent stages 1e-5 x 1e-7); distortions with "
               "KS distance below ~0.005 are not detectable at these sample sizes",
               "scipy.stats closed forms under the documented parameterisation are the independent reference",
               "DistConstant is a point mass: only 'draw equals the constant where the density is 1' is judged",
               "parameter envelope as in C14 with shapes in [0.3, 20] for the sampling tests (heavier tails only slow the tests down)"]

N1, N2 = 20000, 300000
P1, P2 = 1e-5, 1e-7

GRID = [
    ["DistBernoulli", [0.5]], ["DistBernoulli", [0.01]], ["DistBernoulli", [0.99]], ["DistBernoulli", [0.0]], ["DistBernoulli", [1.0]],
    ["DistBinomial", [7, 0.0]], ["DistBinomial", [7, 1.0]], ["DistGeometric", [1.0]], ["DistNegBinomial", [3, 1.0]], ["DistNegBinomial", [1, 1.0]],
    # a parameter of exactly 1 (2, 0.5) is where closed-form special cases and short cuts live
    ["DistBeta", [3.0, 1.0]], ["DistBeta", [1.0, 3.0]], ["DistBeta", [0.5, 1.0]], ["DistBeta", [1, 2.5]], ["DistBeta", [2.0, 2.0]],
    ["DistPearson6", [1.0, 2.5, 1.0]], ["DistPearson6", [2.5, 1.0, 3.0]], ["DistPearson5", [2.0, 1.0]], ["DistWeibull", [2.0, 1.0]],
    ["DistGamma", [2.0, 1.0]], ["DistGamma", [0.5, 1.0]], ["DistErlang", [1.0, 2]], ["DistLogNormal", [0.0, 0.5]],
    # shapes so small that both inner gamma draws regularly underflow: only what survives the float range is judged
    # (draws in [0, 1]; a symmetric Beta puts half of its mass on either side of 0.5)
    ["DistBeta", [0.001, 0.001]], ["DistBeta", [0.0005, 0.0005]], ["DistBeta", [0.002, 0.002]],
    ["DistBeta", [0.5, 0.5]], ["DistBeta", [1.0, 1.0]], ["DistBeta", [2.0, 5.0]], ["DistBeta", [0.7, 3.0]], ["DistBeta", [8, 1.5]],
    ["DistBinomial", [1, 0.3]], ["DistBinomial", [10, 0.5]], ["DistBinomial", [50, 0.02]], ["DistBinomial", [200, 0.9]],
    ["DistConstant", [2.5]],
    ["DistDiscreteUniform", [1, 6]], ["DistDiscreteUniform", [-3, 3]], ["DistDiscreteUniform", [0, 1]], ["DistDiscreteUniform", [0, 999]],
    ["DistErlang", [1.0, 1]], ["DistErlang", [2.0, 2]], ["DistErlang", [0.5, 9]], ["DistErlang", [0.5, 10]], ["DistErlang", [0.5, 11]],
    ["DistErlang", [3.0, 40]], ["DistErlang", [7.5, 5]],
    # large k: (k-1)! and (x/scale)^(k-1) leave the float range from k ~ 145 / 171 on
    ["DistErlang", [0.5, 100]], ["DistErlang", [0.5, 101]], ["DistErlang", [0.5, 120]], ["DistErlang", [2.0, 170]], ["DistErlang", [1.0, 172]],
    ["DistErlang", [0.25, 400]],
    ["DistExponential", [1.0]], ["DistExponential", [0.001]], ["DistExponential", [250.0]],
    ["DistGamma", [0.3, 1.0]], ["DistGamma", [0.5, 2.0]], ["DistGamma", [0.999, 1.0]], ["DistGamma", [1.0, 3.0]], ["DistGamma", [1.001, 1.0]],
    ["DistGamma", [2.0, 0.5]], ["DistGamma", [9.5, 1.0]], ["DistGamma", [20, 10.0]], ["DistGamma", [1.5, 1e-3]],
    ["DistGeometric", [0.5]], ["DistGeometric", [0.05]], ["DistGeometric", [0.95]],
    ["DistLogNormal", [0.0, 1.0]], ["DistLogNormal", [1.5, 0.25]], ["DistLogNormal", [-2.0, 2.0]],
    ["DistNegBinomial", [1, 0.5]], ["DistNegBinomial", [5, 0.3]], ["DistNegBinomial", [20, 0.8]], ["DistNegBinomial", [3, 0.05]],
    ["DistNormal", [0.0, 1.0]], ["DistNormal", [100.0, 0.001]], ["DistNormal", [-5.0, 50.0]],
    ["DistNormalTrunc", [0.0, 1.0, -1.0, 1.0]], ["DistNormalTrunc", [0.0, 1.0, 0.0, math.inf]], ["DistNormalTrunc", [0.0, 1.0, -math.inf, -0.5]],
    ["DistNormalTrunc", [0.0, 1.0, 3.0, 4.2]], ["DistNormalTrunc", [10.0, 2.0, 9.99, 10.01]], ["DistNormalTrunc", [1.0, 1.0, 0.0, 51.0]],
    ["DistNormalTrunc", [0.0, 1.0, -8.0, 8.0]],
    # bounds that are large compared to sigma (relative tests against a bound are then as wide as the interval)
    ["DistNormalTrunc", [1000.0, 0.01, 999.99, 1000.02]], ["DistNormalTrunc", [-5000.0, 0.05, -math.inf, -4999.95]],
    ["DistNormalTrunc", [1e6, 1.0, 1e6 - 1.0, 1e6 + 2.0]],
    ["DistPearson5", [0.5, 1.0]], ["DistPearson5", [1.0, 2.0]], ["DistPearson5", [3.0, 0.5]], ["DistPearson5", [12.0, 10.0]],
    ["DistPearson6", [0.5, 0.7, 1.0]], ["DistPearson6", [2.0, 3.0, 2.0]], ["DistPearson6", [1.0, 1.0, 0.5]], ["DistPearson6", [5.0, 0.5, 1.0]],
    ["DistPoisson", [0.5]], ["DistPoisson", [1.0]], ["DistPoisson", [4.5]], ["DistPoisson", [30.0]], ["DistPoisson", [100.0]], ["DistPoisson", [80]],
    ["DistPoisson", [700.0]], ["DistPoisson", [746.0]], ["DistPoisson", [1500.0]],      # exp(-rate) underflows beyond ~745
    ["DistTriangular", [0.0, 0.5, 1.0]], ["DistTriangular", [0.0, 0.0, 1.0]], ["DistTriangular", [0.0, 1.0, 1.0]], ["DistTriangular", [-5.0, -4.9, 10.0]],
    ["DistTriangular", [1000, 1000.5, 1001]],
    ["DistUniform", [0.0, 1.0]], ["DistUniform", [-5.0, 2.5]], ["DistUniform", [1e6, 1e6 + 1e-3]],
    ["DistWeibull", [0.5, 1.0]], ["DistWeibull", [1.0, 2.0]], ["DistWeibull", [1.5, 3.0]], ["DistWeibull", [5.0, 0.1]], ["DistWeibull", [0.3, 100.0]],
]


def plan(tier):
    n = len(GRID) + 1 + (500 if tier == "quick" else 16000)
    return {"cases": n, "shards": 16, "timeout": 1200 if tier == "quick" else 5400, "min_nontrivial": 150,
            "min": {"draws_tested": 2000000, "density_points_compared": 3000, "statistical_tests": 300}}


def _sh(r):
    return round(r.choice([r.uniform(0.3, 1), r.uniform(1, 3), r.uniform(3, 20), r.choice([1.0, 1.0, 2.0, 0.5, 3.0])]), 3)


def _sc(r):
    return round(10 ** r.uniform(-3, 3), 5)


def _p(r):
    return round(r.uniform(0.02, 0.98), 4)


def _rand_cell(r):
    c = r.choice(["DistBernoulli", "DistBeta", "DistBinomial", "DistDiscreteUniform", "DistErlang", "DistExponential", "DistGamma",
                  "DistGamma", "DistGeometric", "DistLogNormal", "DistNegBinomial", "DistNormal", "DistNormalTrunc", "DistPearson5",
                  "DistPearson6", "DistPoisson", "DistTriangular", "DistUniform", "DistWeibull"])
    if c == "DistBernoulli":
        a = [_p(r)]
    elif c == "DistBeta":
        a = [_sh(r), _sh(r)]
    elif c == "DistBinomial":
        a = [r.randint(1, 120), _p(r)]
    elif c == "DistDiscreteUniform":
        lo = r.randint(-50, 50)
        a = [lo, lo + r.randint(1, 60)]
    elif c == "DistErlang":
        a = [_sc(r), r.randint(1, 40) if r.random() < 0.8 else r.randint(41, 400)]
    elif c == "DistExponential":
        a = [_sc(r)]
    elif c == "DistGamma":
        a = [_sh(r), _sc(r)]
    elif c == "DistGeometric":
        a = [_p(r)]
    elif c == "DistLogNormal":
        a = [round(r.uniform(-3, 3), 3), round(r.uniform(0.05, 2), 3)]
    elif c == "DistNegBinomial":
        a = [r.randint(1, 15), round(r.uniform(0.05, 0.95), 3)]
    elif c == "DistNormal":
        a = [round(r.uniform(-100, 100), 3), _sc(r)]
    elif c == "DistNormalTrunc":
        mu, s = round(r.uniform(-10, 10), 3), round(10 ** r.uniform(-2, 2), 4)
        k1, k2 = sorted([r.uniform(-3.5, 3.5), r.uniform(-3.5, 3.5)])
        if k2 - k1 < 0.01:
            k2 = k1 + 0.5
        lo, hi = mu + k1 * s, mu + k2 * s
        m = r.random()
        a = [mu, s, -math.inf if m < 0.2 else lo, math.inf if 0.2 <= m < 0.4 else hi]
    elif c == "DistPearson5":
        a = [_sh(r), _sc(r)]
    elif c == "DistPearson6":
        a = [_sh(r), _sh(r), _sc(r)]
    elif c == "DistPoisson":
        a = [round(r.uniform(0.05, 100), 3)]
    elif c == "DistTriangular":
        lo = round(r.uniform(-100, 100), 3)
        w = round(10 ** r.uniform(-2, 2), 4)
        a = [lo, lo + w * r.choice([0.0, 1.0, r.random()]), lo + w]
    elif c == "DistUniform":
        lo = round(r.uniform(-100, 100), 3)
        a = [lo, lo + round(10 ** r.uniform(-3, 3), 5)]
    else:
        a = [_sh(r), _sc(r)]
    return [c, a]


def gen_case(rng, tier, i):
    if i < len(GRID):
        return {"cls": GRID[i][0], "args": GRID[i][1], "fam": "grid"}
    if i == len(GRID):
        return {"cls": "erf_inv", "args": [], "fam": "erf"}
    c, a = _rand_cell(rng)
    return {"cls": c, "args": a, "fam": "rnd"}


def _ref(cls, a):
    from scipy import stats as st
    if cls == "DistBernoulli":
        return st.bernoulli(a[0]), "d"
    if cls == "DistBeta":
        return st.beta(a[0], a[1]), "c"
    if cls == "DistBinomial":
        return st.binom(a[0], a[1]), "d"
    if cls == "DistDiscreteUniform":
        return st.randint(a[0], a[1] + 1), "d"
    if cls == "DistErlang":
        return st.gamma(a[1], scale=a[0]), "c"
    if cls == "DistExponential":
        return st.expon(scale=a[0]), "c"
    if cls == "DistGamma":
        return st.gamma(a[0], scale=a[1]), "c"
    if cls == "DistGeometric":
        return st.geom(a[0], loc=-1), "d"
    if cls == "DistLogNormal":
        return st.lognorm(s=a[1], scale=math.exp(a[0])), "c"
    if cls == "DistNegBinomial":
        return st.nbinom(a[0], a[1]), "d"
    if cls == "DistNormal":
        return st.norm(a[0], a[1]), "c"
    if cls == "DistNormalTrunc":
        return st.truncnorm((a[2] - a[0]) / a[1], (a[3] - a[0]) / a[1], loc=a[0], scale=a[1]), "c"
    if cls == "DistPearson5":
        return st.invgamma(a[0], scale=a[1]), "c"
    if cls == "DistPearson6":
        return st.betaprime(a[0], a[1], scale=a[2]), "c"
    if cls == "DistPoisson":
        return st.poisson(a[0]), "d"
    if cls == "DistTriangular":
        return st.triang((a[1] - a[0]) / (a[2] - a[0]), loc=a[0], scale=a[2] - a[0]), "c"
    if cls == "DistUniform":
        return st.uniform(a[0], a[1] - a[0]), "c"
    if cls == "DistWeibull":
        return st.weibull_min(a[0], scale=a[1]), "c"
    raise ValueError(cls)


def _sample(cls, args, seed, n):
    from pydsol.core import distributions as D
    from pydsol.core.streams import MersenneTwister
    d = getattr(D, cls)(MersenneTwister(seed), *args)
    return d, [d.draw() for _ in range(n)]


def run_case(case, ctx):
    import numpy as np
    from scipy import stats as st, integrate
    from vlib import base
    cls, args = case["cls"], case["args"]
    if cls == "erf_inv":
        return _erf(ctx)
    info = {"cls": cls, "args": args}
    ctx.seen("classes", cls)
    seed1 = base.derive("c15", base.canon(case), os_seed()) % (2 ** 31)
    try:
        dist, xs = _sample(cls, args, seed1, N1)
    except Exception as e:
        ctx.viol(f"sampling-raises:{cls}:{type(e).__name__}", {**info, "exc": repr(e)})
        return
    ctx.count("draws_tested", N1)
    if cls == "DistBeta" and args[0] == args[1] and args[0] <= 0.002:
        bad = [x for x in xs if not (0.0 <= x <= 1.0)]
        if bad:
            ctx.viol(f"draw-outside-support:{cls}", {**info, "value": repr(bad[0])})
            return
        above, below = sum(1 for x in xs if x > 0.5), sum(1 for x in xs if x < 0.5)
        z1 = (above - below) / math.sqrt(max(1, above + below))
        ctx.count("statistical_tests", 1)
        if abs(z1) > 4.5:
            seed2 = base.derive("c15-stage2", base.canon(case), os_seed()) % (2 ** 31)
            _, xs2 = _sample(cls, args, seed2, N2)
            ctx.count("draws_tested", N2)
            ctx.count("stage2_runs")
            a2, b2 = sum(1 for x in xs2 if x > 0.5), sum(1 for x in xs2 if x < 0.5)
            z2 = (a2 - b2) / math.sqrt(max(1, a2 + b2))
            if abs(z2) > 6.5 and (z1 > 0) == (z2 > 0):
                ctx.viol(f"sample-disagrees-with-density:{cls}", {**info, "note": "a symmetric density, an asymmetric sample", "z_stage1": z1, "z_stage2": z2,
                                                                  "above_half_stage2": a2, "below_half_stage2": b2, "seeds": [seed1, seed2]})
                return
        ctx.nontrivial = True
        return
    if cls == "DistConstant":
        if any(x != args[0] for x in xs) or dist.probability_density(args[0]) != 1.0 or dist.probability_density(args[0] + 1) != 0.0:
            ctx.viol("constant-point-mass", info)
        ctx.nontrivial = True
        return
    ref, kind = _ref(cls, args)
    if kind == "c":
        if not _density_checks(ctx, dist, ref, cls, args, info):
            return
        # ---- stage 1
        a = np.asarray(xs, dtype=float)
        pks = st.kstest(a, ref.cdf).pvalue
        pchi = _chi_cont(a, ref)
        ctx.count("statistical_tests", 2)
        ctx.seen("min_pvalue_decade", f"1e{int(math.floor(math.log10(max(min(pks, pchi), 1e-300))))}")
        if min(pks, pchi) < P1:
            seed2 = base.derive("c15-stage2", base.canon(case), os_seed()) % (2 ** 31)
            _, xs2 = _sample(cls, args, seed2, N2)
            ctx.count("draws_tested", N2)
            ctx.count("stage2_runs")
            b = np.asarray(xs2, dtype=float)
            pks2, pchi2 = st.kstest(b, ref.cdf).pvalue, _chi_cont(b, ref)
            if (pks < P1 and pks2 < P2) or (pchi < P1 and pchi2 < P2):
                D = st.kstest(b, ref.cdf).statistic
                ctx.viol(f"sample-disagrees-with-density:{cls}", {**info, "stage1": [pks, pchi], "stage2": [pks2, pchi2], "ks_distance": D,
                                                                  "seeds": [seed1, seed2]})
                return
        # the sample mean against the mean of the declared density (light-tailed cells only: excess kurtosis < 20, where the
        # normal approximation of the mean of 20000 draws is safe); two-stage like the other tests
        try:
            mu_, var_, kur_ = [float(v) for v in ref.stats(moments="mvk")]
        except Exception:
            mu_ = var_ = kur_ = math.nan
        if math.isfinite(mu_) and math.isfinite(var_) and var_ > 0 and math.isfinite(kur_) and kur_ < 20:
            ctx.count("statistical_tests", 1)
            z1 = (float(a.mean()) - mu_) / math.sqrt(var_ / len(a))
            if abs(z1) > 4.5:
                seedm = base.derive("c15-stage2-mean", base.canon(case), os_seed()) % (2 ** 31)
                _, xm = _sample(cls, args, seedm, N2)
                ctx.count("draws_tested", N2)
                ctx.count("stage2_runs")
                bm = np.asarray(xm, dtype=float)
                z2 = (float(bm.mean()) - mu_) / math.sqrt(var_ / len(bm))
                if abs(z2) > 6.5 and (z1 > 0) == (z2 > 0):
                    ctx.viol(f"sample-mean-disagrees-with-density:{cls}", {**info, "z_stage1": z1, "z_stage2": z2, "declared_mean": mu_,
                                                                          "sample_mean_stage2": float(bm.mean()), "seeds": [seed1, seedm]})
                    return
        # half of the draws on either side of the median of the declared density (robust where tails are heavy)
        med_ = float(ref.median())
        if math.isfinite(med_):
            ctx.count("statistical_tests", 1)
            ab, be = int((a > med_).sum()), int((a < med_).sum())
            zs1 = (ab - be) / math.sqrt(max(1, ab + be))
            if abs(zs1) > 4.5:
                seeds_ = base.derive("c15-stage2-median", base.canon(case), os_seed()) % (2 ** 31)
                _, xq = _sample(cls, args, seeds_, N2)
                ctx.count("draws_tested", N2)
                ctx.count("stage2_runs")
                bq = np.asarray(xq, dtype=float)
                ab2, be2 = int((bq > med_).sum()), int((bq < med_).sum())
                zs2 = (ab2 - be2) / math.sqrt(max(1, ab2 + be2))
                if abs(zs2) > 6.5 and (zs1 > 0) == (zs2 > 0):
                    ctx.viol(f"sample-median-disagrees-with-density:{cls}", {**info, "z_stage1": zs1, "z_stage2": zs2, "declared_median": med_,
                                                                            "above_stage2": ab2, "below_stage2": be2, "seeds": [seed1, seeds_]})
                    return
        if cls in ("DistNormal", "DistLogNormal", "DistNormalTrunc"):
            if not _cdf_checks(ctx, dist, ref, cls, args, info):
                return
    else:
        if not _pmf_checks(ctx, dist, ref, cls, args, info):
            return
        pchi = _chi_disc(xs, ref)
        ctx.count("statistical_tests", 1)
        ctx.seen("min_pvalue_decade", f"1e{int(math.floor(math.log10(max(pchi, 1e-300))))}")
        # a shift of the whole sample by a fraction of a standard deviation (an off-by-one on a wide support) is what
        # binned tests are weakest at: the sample mean against the mean of the declared probabilities (two-stage z-test)
        mu_, sd_ = float(ref.mean()), float(ref.std())
        if math.isfinite(mu_) and math.isfinite(sd_) and sd_ > 0:
            ctx.count("statistical_tests", 1)
            z1 = (float(np.mean(np.asarray(xs, dtype=float))) - mu_) / (sd_ / math.sqrt(len(xs)))
            if abs(z1) > 4.0:
                seedm = base.derive("c15-stage2-mean", base.canon(case), os_seed()) % (2 ** 31)
                _, xm = _sample(cls, args, seedm, N2)
                ctx.count("draws_tested", N2)
                ctx.count("stage2_runs")
                z2 = (float(np.mean(np.asarray(xm, dtype=float))) - mu_) / (sd_ / math.sqrt(len(xm)))
                if abs(z2) > 6.0 and (z1 > 0) == (z2 > 0):
                    ctx.viol(f"sample-mean-disagrees-with-probabilities:{cls}", {**info, "z_stage1": z1, "z_stage2": z2, "declared_mean": mu_,
                                                                                "sample_mean_stage2": float(np.mean(np.asarray(xm, dtype=float))), "seeds": [seed1, seedm]})
                    return
        if pchi < P1:
            seed2 = base.derive("c15-stage2", base.canon(case), os_seed()) % (2 ** 31)
            _, xs2 = _sample(cls, args, seed2, N2)
            ctx.count("draws_tested", N2)
            ctx.count("stage2_runs")
            pchi2 = _chi_disc(xs2, ref)
            if pchi2 < P2:
                ctx.viol(f"sample-disagrees-with-probabilities:{cls}", {**info, "stage1": pchi, "stage2": pchi2, "seeds": [seed1, seed2]})
                return
    ctx.nontrivial = True


def os_seed():
    import os
    return int(os.environ.get("VERIF_SEED", "0") or 0)


def _chi_cont(a, ref, bins=50):
    import numpy as np
    from scipy import stats as st
    u = ref.cdf(a)
    cnt, _ = np.histogram(u, bins=bins, range=(0.0, 1.0))
    return st.chisquare(cnt, np.full(bins, len(a) / bins)).pvalue


def _chi_disc(xs, ref):
    import numpy as np
    from scipy import stats as st
    n = len(xs)
    lo, hi = int(ref.ppf(1e-12)), int(ref.ppf(1 - 1e-12))
    lo = min(lo, min(xs))
    ks = np.arange(lo, hi + 1)
    pm = ref.pmf(ks)
    vals, counts = np.unique(np.asarray(xs), return_counts=True)
    obs = np.zeros(len(ks))
    extra = 0
    for v, c in zip(vals, counts):
        if lo <= v <= hi:
            obs[int(v - lo)] += c
        else:
            extra += c
    exp = pm * n
    # merge cells until every expected count is >= 5
    O, E = [], []
    co = ce = 0.0
    for o, e in zip(obs, exp):
        co += o
        ce += e
        if ce >= 5:
            O.append(co); E.append(ce)
            co = ce = 0.0
    if O:
        O[-1] += co + extra
        E[-1] += ce
    else:
        return 1.0
    tail = n - sum(E)
    E[-1] += tail
    if len(O) < 2:
        return 1.0 if abs(O[0] - n) < 1e-9 else 0.0
    return st.chisquare(O, E).pvalue


def _density_checks(ctx, dist, ref, cls, args, info):
    import numpy as np
    from scipy import integrate
    qs = [1e-6, 1e-3, 0.01, 0.1, 0.25, 0.5, 0.75, 0.9, 0.99, 0.999, 1 - 1e-6]
    pts = [float(ref.ppf(q)) for q in qs]
    lo, hi = ref.support()
    peak = 0.0
    for x in pts:
        ctx.count("density_points_compared")
        try:
            p = dist.probability_density(x)
        except Exception as e:
            ctx.viol(f"density-raises:{cls}:{type(e).__name__}", {**info, "x": x, "exc": repr(e)})
            return False
        w = float(ref.pdf(x))
        peak = max(peak, w)
        if not (isinstance(p, (int, float)) and p >= 0.0):
            ctx.viol(f"density-negative-or-nan:{cls}", {**info, "x": x, "p": repr(p)})
            return False
        if w > 1e-290 and math.isfinite(w) and abs(p - w) > 1e-7 * w + 1e-300:
            if (lo < x < hi):
                ctx.viol(f"density-differs-from-closed-form:{cls}", {**info, "x": x, "declared": p, "closed_form": w})
                return False
    # a sibling instance with the same leading parameter but different other parameters must not change this
    # instance's density (class-level or incompletely keyed caches), and must itself agree with its closed form
    if len(args) >= 2 and cls not in ("DistNormalTrunc", "DistTriangular", "DistUniform", "DistDiscreteUniform"):
        from pydsol.core.streams import MersenneTwister
        from pydsol.core import distributions as D
        before = [dist.probability_density(x) for x in pts[2:9]]
        for k in range(1, len(args)):
            sargs = list(args)
            sargs[k] = sargs[k] * 3 if not (cls == "DistErlang" and k == 1) else sargs[k] + 2
            try:
                sib = getattr(D, cls)(MersenneTwister(1), *sargs)
                sref, _ = _ref(cls, sargs)
            except Exception:
                continue
            for q in (0.1, 0.5, 0.9):
                x = float(sref.ppf(q))
                ctx.count("sibling_density_points")
                p, w = sib.probability_density(x), float(sref.pdf(x))
                if w > 1e-290 and math.isfinite(w) and abs(p - w) > 1e-7 * w:
                    ctx.viol(f"density-differs-from-closed-form:{cls}", {**info, "sibling_args": sargs, "x": x, "declared": p,
                                                                         "closed_form": w, "note": "second instance in the same process"})
                    return False
        after = [dist.probability_density(x) for x in pts[2:9]]
        if [float(a).hex() for a in after] != [float(b).hex() for b in before]:
            ctx.viol(f"density-changed-by-another-instance:{cls}", {**info, "before": before, "after": after})
            return False
    # the density at x is a function of x alone: an equal, fresh instance that is first asked other questions
    # (integral values as int, float and bool, far-away values) gives bit-identical answers
    try:
        from pydsol.core.streams import MersenneTwister
        fresh = type(dist)(MersenneTwister(1), *args)
        probe = [float(x) for x in pts[2:9]]
        for q in [int(x) for x in probe] + [float(int(x)) for x in probe] + [True, False, 0, 1, -1e300, 1e300]:
            try:
                fresh.probability_density(q)
            except Exception:
                pass
        mine = [float(dist.probability_density(x)).hex() for x in probe]
        theirs = [float(fresh.probability_density(x)).hex() for x in probe]
        ctx.count("densities_asked_again", len(probe))
        if mine != theirs:
            ctx.viol(f"density-changes-between-calls:{cls}", {**info, "points": probe, "this": mine, "equal_instance_asked_other_values_first": theirs})
            return False
    except Exception as e:
        ctx.viol(f"density-raises:{cls}:{type(e).__name__}", {**info, "exc": repr(e), "asked": "again"})
        return False
    # boundary and outside points: no raise; exactly zero outside the support
    edge = [v for v in (lo, hi) if math.isfinite(v)] + ([args[1]] if cls == "DistTriangular" else [])
    for x in edge:
        try:
            p = dist.probability_density(float(x))
            if not (p >= 0.0):
                ctx.viol(f"density-negative-or-nan:{cls}", {**info, "x": x, "p": repr(p)})
                return False
        except Exception as e:
            ctx.viol(f"density-raises-at-support-boundary:{cls}:{type(e).__name__}", {**info, "x": x, "exc": repr(e)})
            return False
    span = (pts[-1] - pts[0]) or 1.0
    outside = []
    if math.isfinite(lo):
        outside += [lo - 1e-3 * span, lo - span, lo - 1e6 * span]
    if math.isfinite(hi):
        outside += [hi + 1e-3 * span, hi + span, hi + 1e6 * span]
    for x in outside:
        ctx.count("outside_support_points")
        try:
            p = dist.probability_density(float(x))
        except Exception as e:
            ctx.viol(f"density-raises-outside-support:{cls}:{type(e).__name__}", {**info, "x": x, "exc": repr(e)})
            return False
        if p != 0.0:
            ctx.viol(f"density-nonzero-outside-support:{cls}", {**info, "x": x, "p": p})
            return False
    # normalisation by adaptive quadrature, piece by piece between closed-form quantiles: every piece must carry
    # the probability mass the closed-form cdf assigns to it (bounded densities only; singular end points are
    # covered by the pointwise comparison)
    singular = (cls in ("DistGamma", "DistWeibull", "DistErlang") and args[0 if cls != "DistErlang" else 1] < 1) or \
               (cls == "DistBeta" and min(args) < 1) or (cls == "DistPearson6" and args[0] < 1)
    if not singular:
        qq = [0.0, 1e-9, 1e-7, 1e-5, 1e-3, 0.01, 0.05, 0.1, 0.2, 0.3, 0.4, 0.5, 0.6, 0.7, 0.8, 0.9, 0.95, 0.99, 0.999, 1 - 1e-5,
              1 - 1e-7, 1 - 1e-9, 1.0]
        if not math.isfinite(lo):
            qq = qq[1:]
        if not math.isfinite(hi):
            qq = qq[:-1]
        xsq = [float(ref.ppf(q)) for q in qq]
        total = 0.0
        for (q0, x0), (q1, x1) in zip(zip(qq, xsq), zip(qq[1:], xsq[1:])):
            if not (x1 > x0):
                continue
            brk = [args[1]] if cls == "DistTriangular" and x0 < args[1] < x1 else None
            try:
                if x0 > 0 and x1 / x0 > 50:
                    # a piece spanning decades (heavy tails): integrate over t = ln x, where the integrand is tame
                    val, err = integrate.quad(lambda t: dist.probability_density(math.exp(t)) * math.exp(t),
                                              math.log(x0), math.log(x1), limit=200)
                else:
                    val, err = integrate.quad(lambda x: dist.probability_density(float(x)), x0, x1, points=brk, limit=200)
            except Exception as e:
                ctx.viol(f"density-raises:{cls}:{type(e).__name__}", {**info, "where": "quadrature", "exc": repr(e)})
                return False
            ctx.count("quadratures")
            if abs(val - (q1 - q0)) > 1e-7 + 10 * err:
                ctx.viol(f"density-mass-differs-from-closed-form:{cls}", {**info, "piece": [x0, x1], "integral": val,
                                                                          "closed_form_mass": q1 - q0, "quad_error": err})
                return False
            total += val
        if abs(total - (qq[-1] - qq[0])) > 1e-6:
            ctx.viol(f"density-does-not-integrate-to-one:{cls}", {**info, "integral": total, "expected": qq[-1] - qq[0]})
            return False
    else:
        ctx.count("quadrature_skipped_singular_endpoint")
    return True


def _pmf_checks(ctx, dist, ref, cls, args, info):
    lo, hi = int(ref.ppf(1e-13)), int(ref.ppf(1 - 1e-13))
    slo, shi = ref.support()
    lo = max(lo - 2, int(slo))
    hi = hi + 2 if not math.isfinite(shi) else int(shi)
    total = 0.0
    first = {}
    for k in range(lo, hi + 1):
        ctx.count("density_points_compared")
        try:
            p = dist.probability(k)
        except Exception as e:
            ctx.viol(f"probability-raises:{cls}:{type(e).__name__}", {**info, "k": k, "exc": repr(e)})
            return False
        first[k] = p
        w = float(ref.pmf(k))
        if not (isinstance(p, (int, float)) and p >= 0.0):
            ctx.viol(f"probability-negative-or-nan:{cls}", {**info, "k": k, "p": repr(p)})
            return False
        if abs(p - w) > 1e-9 * w + 1e-15:
            ctx.viol(f"probability-differs-from-closed-form:{cls}", {**info, "k": k, "declared": p, "closed_form": w})
            return False
        total += p
    if abs(total - 1.0) > 1e-9:
        ctx.viol(f"probabilities-do-not-sum-to-one:{cls}", {**info, "sum": total, "window": [lo, hi]})
        return False
    outs = [int(slo) - 1, int(slo) - 1000] + ([int(shi) + 1, int(shi) + 1000] if math.isfinite(shi) else [])
    for k in outs:
        try:
            p = dist.probability(k)
        except Exception as e:
            ctx.viol(f"probability-raises-outside-support:{cls}:{type(e).__name__}", {**info, "k": k, "exc": repr(e)})
            return False
        if p != 0.0:
            ctx.viol(f"probability-nonzero-outside-support:{cls}", {**info, "k": k, "p": p})
            return False
    # the probability of k is a function of k alone: asking other questions in between (non-integral and
    # integral-valued floats, bools, far-away values - answered or refused) changes no answer
    ks = list(first)
    from pydsol.core.streams import MersenneTwister
    fresh = type(dist)(MersenneTwister(1), *args)          # an equal distribution that is asked the odd questions first
    for d in (dist, fresh):
        for q in [k + 0.5 for k in ks[:40]] + [float(k) for k in ks[:40]] + [True, False, -10 ** 9, 10 ** 9, 1e300]:
            try:
                d.probability(q)
            except Exception:
                pass
        for k in reversed(ks):
            ctx.count("probabilities_asked_again")
            try:
                p = d.probability(k)
            except Exception as e:
                ctx.viol(f"probability-raises:{cls}:{type(e).__name__}", {**info, "k": k, "exc": repr(e), "asked": "again"})
                return False
            if p != first[k]:
                ctx.viol(f"probability-changes-between-calls:{cls}", {**info, "k": k, "first": first[k], "again": p,
                                                                       "instance": "same" if d is dist else "equal, asked other values first"})
                return False
    return True


def _cdf_checks(ctx, dist, ref, cls, args, info):
    import numpy as np
    lo, hi = float(ref.ppf(1e-7)), float(ref.ppf(1 - 1e-7))
    xs = np.linspace(lo, hi, 2001)
    prev = -1.0
    peak = max(float(ref.pdf(x)) for x in xs[::50])
    h = (hi - lo) * 1e-6
    for i, x in enumerate(xs):
        x = float(x)
        ctx.count("cdf_points")
        c = dist.cumulative_probability(x)
        if not (0.0 <= c <= 1.0) or c < prev - 1e-15:
            ctx.viol(f"cdf-not-monotone-or-out-of-range:{cls}", {**info, "x": x, "cdf": c, "previous": prev})
            return False
        prev = c
        w = float(ref.cdf(x))
        if abs(c - w) > 1e-9:
            ctx.viol(f"cdf-differs-from-closed-form:{cls}", {**info, "x": x, "declared": c, "closed_form": w})
            return False
        if i % 10 == 5:
            dcdf = (dist.cumulative_probability(x + h) - dist.cumulative_probability(x - h)) / (2 * h)
            p = dist.probability_density(x)
            if abs(dcdf - p) > 1e-5 * peak + 1e-6 * abs(p):
                ctx.viol(f"cdf-derivative-differs-from-density:{cls}", {**info, "x": x, "dcdf": dcdf, "pdf": p})
                return False
    # ---- outside and at the ends of the support: cdf is 0 below / 1 above (consistent with a density that vanishes
    # there), the inverse at 0 and 1 brackets every other inverse value, probabilities outside [0, 1] have no inverse
    slo, shi = float(ref.ppf(0.0)), float(ref.ppf(1.0))
    for x, want in [(slo - d, 0.0) for d in (1e-9, 1.0, 1e9, math.inf) if math.isfinite(slo)] + \
                   [(shi + d, 1.0) for d in (1e-9, 1.0, 1e9, math.inf) if math.isfinite(shi)] + [(-math.inf, 0.0), (math.inf, 1.0)]:
        ctx.count("cdf_points_outside_support")
        try:
            c = dist.cumulative_probability(x)
        except Exception as e:
            ctx.viol(f"cdf-raises:{cls}:{type(e).__name__}", {**info, "x": x, "exc": repr(e)})
            return False
        if abs(c - want) > 1e-9:        # (the same tolerance as against the closed form inside the support)
            ctx.viol(f"cdf-outside-support:{cls}", {**info, "x": x, "cdf": c, "want": want})
            return False
    try:
        x0, x1 = dist.inverse_cumulative_probability(0.0), dist.inverse_cumulative_probability(1.0)
        xa, xb = dist.inverse_cumulative_probability(1e-9), dist.inverse_cumulative_probability(1 - 1e-9)
    except Exception as e:
        ctx.viol(f"icdf-raises:{cls}:{type(e).__name__}", {**info, "y": "0.0 / 1.0 / 1e-9", "exc": repr(e)})
        return False
    ctx.count("icdf_end_points", 2)
    # erf_inv is accurate to ~4.5e-8 relative to the scale of the underlying normal: the inner values may overshoot an
    # end point by that much, and the closed form's own end points are only good to rounding
    scale = max([abs(v) for v in (xa, xb) if math.isfinite(v)] + [float(args[1])])
    slack = 1e-6 * scale
    if not (x0 <= xa + slack and xa <= xb and xb <= x1 + slack) or abs(dist.cumulative_probability(x0)) > 1e-9 or abs(dist.cumulative_probability(x1) - 1.0) > 1e-9 \
            or (math.isfinite(slo) and abs(x0 - slo) > slack) or (math.isfinite(shi) and abs(x1 - shi) > slack):
        ctx.viol(f"icdf-end-points:{cls}", {**info, "icdf(0)": x0, "icdf(1e-9)": xa, "icdf(1-1e-9)": xb, "icdf(1)": x1, "support": [slo, shi]})
        return False
    for y in (-1e-9, -0.5, 1.0000001, 2.0, math.nan):
        try:
            r = dist.inverse_cumulative_probability(y)
        except Exception:
            continue
        if not (r != r):        # a NaN answer is as good as a refusal
            ctx.viol(f"icdf-of-a-non-probability-answered:{cls}", {**info, "y": y, "answer": r})
            return False
    for y in [1e-6, 1e-4, 0.01, 0.0625 / 2, 0.125, 0.3, 0.5, 0.7, 0.875, 1 - 0.0625 / 2, 0.99, 1 - 1e-4, 1 - 1e-6] + list(np.linspace(0.001, 0.999, 400)):
        y = float(y)
        ctx.count("icdf_roundtrips")
        try:
            x = dist.inverse_cumulative_probability(y)
            back = dist.cumulative_probability(x)
        except Exception as e:
            ctx.viol(f"icdf-raises:{cls}:{type(e).__name__}", {**info, "y": y, "exc": repr(e)})
            return False
        # erf_inv is documented to ~4.5e-8 relative; a truncation to probability mass m amplifies the round-trip
        # error by 1/m, so the tolerance for the truncated normal is 1e-7/m (never below 1e-6)
        tol = 1e-6
        if cls == "DistNormalTrunc":
            from scipy import stats as st
            m = float(st.norm.cdf((args[3] - args[0]) / args[1]) - st.norm.cdf((args[2] - args[0]) / args[1]))
            tol = max(1e-6, 1e-7 / m)
        if abs(back - y) > tol:
            ctx.viol(f"cdf-icdf-not-inverse:{cls}", {**info, "y": y, "icdf": x, "cdf_of_icdf": back})
            return False
    if cls == "DistNormalTrunc":
        # the pair offered for the distribution before truncation: that of Normal(mu, sigma), whatever the bounds are
        from scipy import stats as st
        mu, sigma = float(args[0]), float(args[1])
        prev = -math.inf
        for y in [1e-6, 1e-4, 0.01, 0.125, 0.5, 0.875, 0.99, 1 - 1e-4, 1 - 1e-6] + list(np.linspace(0.001, 0.999, 200)):
            y = float(y)
            ctx.count("icdf_roundtrips")
            try:
                x = dist.inverse_cumulative_probability_not_truncated(y)
                back = dist.cumulative_probability_not_truncated(x)
            except Exception as e:
                ctx.viol(f"icdf-raises:{cls}:not-truncated:{type(e).__name__}", {**info, "y": y, "exc": repr(e)})
                return False
            w = float(st.norm.ppf(y, mu, sigma))
            if abs(x - w) > 1e-6 * sigma * (1 + abs((w - mu) / sigma)) or abs(back - y) > 1e-6:
                ctx.viol(f"cdf-icdf-not-inverse:{cls}:not-truncated", {**info, "y": y, "icdf": x, "normal_quantile": w, "cdf_of_icdf": back})
                return False
        for x in sorted([float(args[2]), float(args[3])] + list(np.linspace(mu - 6 * sigma, mu + 6 * sigma, 61))):
            if x != x or abs(x) == math.inf:
                continue
            c = dist.cumulative_probability_not_truncated(x)
            if abs(c - float(st.norm.cdf(x, mu, sigma))) > 1e-12 or c < prev:
                ctx.viol(f"cdf-differs-from-closed-form:{cls}:not-truncated", {**info, "x": x, "declared": c, "closed_form": float(st.norm.cdf(x, mu, sigma))})
                return False
            prev = c
    return True


def _erf(ctx):
    import numpy as np
    from scipy import special
    from pydsol.core.utils import erf_inv
    ys = list(np.linspace(-0.999999, 0.999999, 40001)) + [0.75, 0.9375, -0.75, -0.9375, 0.75 - 1e-12, 0.75 + 1e-12, 0.9375 - 1e-12,
                                                         0.9375 + 1e-12, 1 - 1e-8, 1 - 2e-9, -(1 - 2e-9), 1e-12, -1e-12, 1e-300, 0.0]
    ys = sorted(float(y) for y in ys)
    prev = -math.inf
    worst = 0.0
    for y in ys:
        ctx.count("erf_inv_points")
        try:
            r = erf_inv(y)
        except Exception as e:
            ctx.viol(f"erf_inv-raises:{type(e).__name__}", {"y": y, "exc": repr(e)})
            return
        w = float(special.erfinv(y))
        if r < prev - 1e-9:
            ctx.viol("erf_inv-not-monotone", {"y": y, "value": r, "previous": prev})
            return
        prev = max(prev, r)
        if w != 0.0:
            rel = abs(r - w) / abs(w)
            worst = max(worst, rel)
            if rel > 6e-8:
                ctx.viol("erf_inv-accuracy", {"y": y, "value": r, "reference": w, "relative_error": rel})
                return
        elif r != 0.0:
            ctx.viol("erf_inv-accuracy", {"y": y, "value": r, "reference": w})
            return
        back = math.erf(r)
        if abs(back - y) > 1e-7:
            ctx.viol("erf-erf_inv-not-inverse", {"y": y, "erf_of_erf_inv": back})
            return
    if erf_inv(1.0) != math.inf or erf_inv(-1.0) != -math.inf:
        ctx.viol("erf_inv-at-plus-minus-one", {})
    ctx.seen("erf_inv_worst_relative_error", f"{worst:.3e}")
    ctx.nontrivial = True
