"""
C03 - run horizon: bounded runs execute exactly the events up to the bound and compose.
Monitor: a generated model program is driven through a generated *segmentation schedule* (run_up_to,
run_up_to_including, step, start-then-stop pauses forced with a handler gate, final start) on the real
simulator; after every segment (at quiescence) the executed events, the clock, the state and the
notification stream are compared with the reference interpreter, and the concatenated trace with one
uninterrupted reference run.
"""
from vlib.simharness import num
ID = "C03"
LEVEL = "exploration"
TECHNIQUE = "runtime monitor: per-segment trace/clock/state of the real simulator under generated segmentation schedules vs reference DEVS interpreter; pauses forced by handler gates"
RULE = ("seeded model programs (float/int/Duration clocks) x seeded segmentation schedules of 2-9 commands with cut "
        "points before the first event, exactly at event times, strictly between events, at the warm-up time, at and "
        "beyond the replication end and before the current clock; pauses are forced deterministically (the handler of "
        "the k-th event parks at a gate while stop() is issued; 12 (thorough 72) cases pause from a TIME_CHANGED subscriber that calls stop() on the run thread, 60 (1200) run with a TIME_CHANGED subscriber that schedules an event of its own at every announced time); non-trivial = schedule with >=2 different command "
        "kinds, >=1 cut exactly at an event time and >=1 strictly between two event times, run to the end; distinct = "
        "canonical (program, schedule) hash")
ASSUMPTIONS = ["a bounded run whose bound lies before the clock may be refused or be a no-op, but must not execute anything or move the clock backwards",
               "a step with nothing executable executes nothing; the clock may stay anywhere in [clock, end]",
               "an exclusive bound exactly at the replication end is generated as the last command only: it must execute the events earlier than the end and none at it; the state it leaves is open and not judged",
               "a bound beyond the replication end behaves like the end itself (clock = end, ENDED)",
               "a stop() issued inside the TIME_CHANGED notification of time t pauses the run no later than the end of instant t (no event later than t runs before the pause); where inside the instant the pause lands is not judged, only that the pieces compose",
               "the scheduling TIME_CHANGED subscriber schedules at the announced time (absolute); its events are judged by exactly-once, their order relative to the announced event is not (the announced event is already taken from the list)"]


def plan(tier):
    n = 6000 if tier == "quick" else 400000
    return {"cases": n, "shards": 12, "timeout": 900 if tier == "quick" else 5400, "min_nontrivial": 100,
            "min": {"segments_judged": 6000, "pauses_forced": 300, "trace_events_compared": 20000}}


def gen_case(rng, tier, i):
    from vlib.proggen import gen_program
    from vlib.refdevs import Ref, tnum
    clock = ["float", "int", "duration"][i % 3]
    nre = 3 if tier == "quick" else 12
    if nre <= i < nre + 18:
        # a run command issued from a handler WITHOUT a stop first is refused - and must leave the run in progress alone
        # (its bound and whether the bound is inclusive)
        j = i - nre
        clk = ["float", "int", "duration"][j % 3]
        lit = (lambda v: [float(v), "s"]) if clk == "duration" else (lambda v: int(v) if clk == "int" else float(v))
        outer = ["run_up_to_including", "run_up_to", "start"][(j // 3) % 3]
        inner = [x for x in ("run_up_to", "run_up_to_including", "start", "step") if x != outer][(j // 9) % 3]
        prog = {"clock": clk, "rep": {"start": lit(0), "warmup": lit(0), "length": lit(10)},
                "init": [["abs", lit(t), 5, f"a{t}"] for t in range(1, 11)] + [["abs", lit(5), 3, "a5b"]],
                "handlers": {"a2": [["refused_inside", inner, lit(7)]]}}
        return {"fam": "refuse", "prog": prog, "outer": outer, "inner": inner, "bound": 5}
    nl = 12 if tier == "quick" else 72
    if nre + 18 <= i < nre + 18 + nl:
        # a subscriber of the TIME_CHANGED notification pauses the run (stop() from the run thread, after a time was announced
        # and before its first event ran); the run is then resumed: wherever the pause lands, nothing is lost or repeated
        # (each of these cases costs the library's 1 s self-wait of stop() on the run thread)
        prog = gen_program(rng, clock=clock, n_events=rng.randint(6, 30), with_bad=False, bigint=False)
        return {"fam": "lstop", "prog": prog, "ks": [rng.randint(1, 6) for _ in range(1 + (i % 2))]}
    nt = 60 if tier == "quick" else 1200
    if nre + 18 + nl <= i < nre + 18 + nl + nt:
        # a subscriber of TIME_CHANGED schedules an event of its own at every announced time (at that time, priority 10 or 1):
        # whatever the segmentation, every scheduled event - the model's and the subscriber's - runs exactly once
        prog = gen_program(rng, clock=clock, n_events=rng.randint(6, 30), with_bad=False, bigint=False)
        prog["simlisteners"] = [{"name": "TC", "type": "TIME_CHANGED_EVENT", "script": [["schedannounced", rng.choice([10, 10, 1, 5])]]}]
        sched = []
        for _ in range(rng.randint(0, 3)):
            sched.append(rng.choice([["pause", rng.randint(1, 5)], ["step"], ["step"]]))
        return {"fam": "tcsched", "prog": prog, "sched": sched}
    if i < nre:
        # a handler ends the current run and re-issues it with a nearer bound: stop(); run_up_to(t) from inside the run
        # (each of these cases costs the library's 1 s self-wait of stop() on the run thread)
        lit = (lambda v: [float(v), "s"]) if clock == "duration" else (lambda v: int(v) if clock == "int" else float(v))
        k = 2 + (i // 3) % 3
        prog = {"clock": clock, "rep": {"start": lit(0), "warmup": lit(0), "length": lit(20)},
                "init": [["abs", lit(t), 5, f"a{t}"] for t in range(1, 11)], "handlers": {f"a{k}": [["rebound", lit(k + 3), ["run_up_to", "run_up_to_including"][(i // 3) % 2]]]}}
        return {"fam": "rebound", "prog": prog, "at": k, "bound": k + 3}
    prog = gen_program(rng, clock=clock, n_events=rng.randint(4, 30), with_bad=rng.random() < 0.3, bigint=True)
    ref = Ref(prog)
    ref.initialize()
    ref.run()
    times = sorted({t for _, t, _ in ref.trace})
    end, start, warm = ref.end, ref.start, ref.warm
    cuts = []
    for _ in range(rng.randint(1, 8)):
        kind = rng.choice(["at", "at", "between", "between", "before_first", "warm", "end", "beyond", "random", "tenths", "tenths"])
        if kind == "at" and times:
            t = rng.choice(times)
        elif kind == "between" and len(times) >= 2:
            k = rng.randrange(len(times) - 1)
            t = (times[k] + times[k + 1]) / 2      # (on the int clock too: a cut between 2 and 3 is 2.5)
            if t in times or (clock == "int" and abs(t) > 2 ** 52):
                t = rng.choice(times)
        elif kind == "before_first":
            t = start
        elif kind == "warm":
            t = warm
        elif kind == "end":
            t = end
        elif kind == "tenths" and clock != "int":
            # decimal fractions (0.3, 0.9, 12.7): not exactly representable, and clock + (bound - clock) need not give the bound back
            t = start + rng.randint(1, 10 * max(1, int(end - start))) / 10
        elif kind == "beyond":
            t = end + rng.choice([1, 5])
        else:
            t = start + rng.randint(0, int(end - start))
        cuts.append(t)
    if rng.random() < 0.8:
        cuts.sort()          # mostly forward-moving bounds; unsorted schedules exercise bounds before the clock
    sched = []
    for t in cuts:
        r = rng.random()
        if r < 0.30:
            sched.append(["run_up_to", _lit(clock, t)] if t != end else ["run_up_to_including", _lit(clock, t)])
        elif r < 0.55:
            sched.append(["run_up_to_including", _lit(clock, t)])
        elif r < 0.75:
            sched.append(["step"])
        else:
            sched.append(["pause", rng.randint(1, 4)])
    if rng.random() < 0.12:
        # last command: an EXCLUSIVE run up to exactly the replication end - it executes the events earlier than the end and none
        # at it (what state that leaves is open and not judged; nothing follows)
        sched.append(["run_up_to_at_end", _lit(clock, end)])
        return {"prog": prog, "sched": sched}
    sched.append(["start"])
    if rng.random() < 0.3:
        sched.append(rng.choice([["step"], ["start"], ["run_up_to_including", _lit(clock, end)]]))     # after the end: must be refused
    if rng.random() < 0.3:
        # a bound that is not a number: refused, nothing executed, nothing changed, the schedule continues as if it were not there
        sched.insert(rng.randrange(len(sched)), ["nanbound", rng.choice(["run_up_to", "run_up_to_including"])])
    return {"prog": prog, "sched": sched}


def _lit(clock, t):
    if clock == "duration":
        return [float(t), "s"]
    if clock == "int":
        return int(t) if t == int(t) else float(t)
    return float(t)


def shard_teardown(tier, ctx):
    from vlib import simharness
    simharness.cleanup_all()


def _rebound(case, ctx):
    from vlib.simharness import Harness
    prog = case["prog"]
    h = Harness(prog)
    res = {}

    def on_action(model, a, parent):
        res["stop"] = h.cmd("stop")
        res["first_after"] = len(h.hlog)
        res["rerun"] = h.cmd(a[2], a[1])
    h.on_action = on_action
    name = prog["handlers"][f"a{case['at']}"][0][2]
    where = {"clock": prog["clock"], "handler_at": case["at"], "new_bound": case["bound"], "command": name}
    try:
        if h.cmd("initialize") != "ok" or h.cmd("start") != "ok" or not h.wait_quiescent(30):
            ctx.viol("hang:rebound", {**where, "snapshot": h.snapshot()})
            return
        ctx.count("stop_and_rebound_from_a_handler")
        times = [c for _, c in h.trace()]
        if res.get("stop") != "ok":
            ctx.viol(f"stop-of-a-running-simulator-refused:{res.get('stop')}", where)
            return
        if res.get("rerun") == "ok":
            # accepted: from here on this IS a run up to the new bound - nothing at or beyond it runs (at it only for the
            # inclusive form), the clock ends at the bound and the replication stays resumable
            limit = case["bound"]
            late = [t for t in times if t > limit or (t == limit and name == "run_up_to")]
            snap = h.snapshot()
            if late or snap["clock"] != limit or snap["run_state"] != "STOPPED" or snap["replication_state"] != "STARTED":
                ctx.viol("accepted-bounded-run-ran-past-its-bound", {**where, "executed_times": times, "snapshot": snap})
                return
        else:
            # refused (the run was still stopping): then the stop stands - nothing after the handler's own event
            if res.get("rerun") != "DSOLError" or any(t > case["at"] for t in times):
                ctx.viol("refused-rebound-changed-the-run", {**where, "outcome": res.get("rerun"), "executed_times": times})
                return
        ctx.seen("rebound_outcomes", f"{name}:{res.get('rerun')}")
        if h.cmd("start") != "ok" or not h.wait_quiescent(30):
            ctx.viol("not-resumable-after-a-bounded-run", {**where, "snapshot": h.snapshot()})
            return
        if [c for _, c in h.trace()] != list(range(1, 11)):
            ctx.viol("segment:rebound:events-lost-or-repeated", {**where, "executed_times": [c for _, c in h.trace()]})
            return
        ctx.nontrivial = True
    finally:
        h.cleanup()


def _lstop(case, ctx):
    from vlib.simharness import Harness, compare_traces
    from vlib.refdevs import Ref
    prog = case["prog"]
    full = Ref(prog)
    full.initialize()
    full.run()
    want = [(t, cl) for t, cl, _ in full.trace]
    h = Harness(prog)
    where = {"clock": prog["clock"], "stop_inside_time_changed_notification_number": case["ks"]}
    try:
        if h.cmd("initialize") != "ok":
            ctx.viol("initialize-raises", where)
            return
        for k in case["ks"]:
            if h.sim.run_state.name == "ENDED":
                break
            h.stop_from_time_changed(k)
            first = len(h.hlog)
            if h.cmd("start") != "ok" or not h.wait_quiescent(30):
                ctx.viol("hang:lstop", {**where, "snapshot": h.snapshot()})
                return
            if h.lstop_out is None:
                continue            # the run ended before the k-th announcement
            ctx.count("pauses_requested_by_a_time_changed_listener")
            w = {**where, "stop_at_announced_time": h.lstop_at, "stop_outcome": h.lstop_out}
            if h.lstop_out != "ok":
                ctx.viol(f"stop-of-a-running-simulator-refused:{h.lstop_out}", w)
                return
            got = h.trace()
            if not compare_traces(ctx, got, want, w, prefix_ok=True, what="segment:listener-pause"):
                return
            later = [x for x in h.trace(first) if x[1] > h.lstop_at]
            snap = h.snapshot()
            if later or (len(got) < len(want) and (snap["run_state"], snap["replication_state"]) != ("STOPPED", "STARTED")):
                ctx.viol("run-not-paused-by-stop-from-a-listener", {**w, "executed_later_than_the_stop": later, "snapshot": snap})
                return
        if h.sim.run_state.name != "ENDED" and (h.cmd("start") != "ok" or not h.wait_quiescent(30)):
            ctx.viol("not-resumable-after-a-pause", {**where, "snapshot": h.snapshot()})
            return
        ctx.count("compositions_judged")
        if not compare_traces(ctx, h.trace(), want, where, what="composition"):
            return
        if h.snapshot()["clock"] != num(full.clock):
            ctx.viol("composition:final-clock", {**where, "got": h.snapshot()["clock"], "want": num(full.clock)})
            return
        ctx.nontrivial = True
    finally:
        h.cleanup()


def _tcsched(case, ctx):
    from vlib.simharness import Harness, compare_traces, check_clock_monotone
    from vlib.refdevs import Ref
    import collections
    prog = case["prog"]
    bare = {k: v for k, v in prog.items() if k != "simlisteners"}
    full = Ref(bare)
    full.initialize()
    full.run()
    want = [(t, cl) for t, cl, _ in full.trace]
    h = Harness(prog)
    where = {"clock": prog["clock"], "schedule": case["sched"], "subscriber": prog["simlisteners"][0]["script"]}
    try:
        if h.cmd("initialize") != "ok":
            ctx.viol("initialize-raises", where)
            return
        for c in case["sched"] + [["start"]]:
            if h.sim.run_state.name == "ENDED":
                break
            if c[0] == "pause":
                h.start_and_pause_after(c[1])
            else:
                h.cmd(c[0])
            if not h.wait_quiescent(30):
                ctx.viol("hang:tcsched", {**where, "snapshot": h.snapshot()})
                return
        ctx.count("runs_with_a_scheduling_time_changed_subscriber")
        mine = set(h.listener_tags)
        got = h.trace()
        counts = collections.Counter(t for t, _ in got)
        twice = sorted(t for t, n in counts.items() if n > 1)
        lost = sorted(t for t in mine if counts[t] == 0)
        ctx.count("subscriber_scheduled_events", len(mine))
        if twice or lost:
            ctx.viol("composition:event-executed-twice-or-lost:scheduling-subscriber", {**where, "executed_twice": twice[:6], "never_executed": lost[:6], "trace": got[:16]})
            return
        if not compare_traces(ctx, [x for x in got if x[0] not in mine], want, where, what="composition"):
            return
        if not check_clock_monotone(h, ctx, where):
            return
        ctx.nontrivial = len(mine) >= 2
    finally:
        h.cleanup()


def _refuse(case, ctx):
    from vlib.simharness import Harness
    prog = case["prog"]
    h = Harness(prog)
    res = {}

    def on_action(model, a, parent):
        res["inner"] = h.cmd(a[1], a[2]) if a[1].startswith("run_up_to") else h.cmd(a[1])
    h.on_action = on_action
    where = {"clock": prog["clock"], "outer": case["outer"], "inner_from_handler": case["inner"]}
    lit5 = prog["init"][4][1]
    try:
        if h.cmd("initialize") != "ok":
            ctx.viol("initialize-raises", where)
            return
        out = h.cmd(case["outer"], lit5) if case["outer"] != "start" else h.cmd("start")
        if out != "ok" or not h.wait_quiescent(30):
            ctx.viol("hang:refuse", {**where, "outcome": out, "snapshot": h.snapshot()})
            return
        ctx.count("run_commands_refused_inside_a_run")
        if res.get("inner") != "DSOLError":
            ctx.viol(f"run-command-inside-a-run-not-refused:{res.get('inner')}", where)
            return
        times = [c for _, c in h.trace()]
        want = {"run_up_to_including": [1, 2, 3, 4, 5, 5], "run_up_to": [1, 2, 3, 4], "start": [1, 2, 3, 4, 5, 5, 6, 7, 8, 9, 10]}[case["outer"]]
        snap = h.snapshot()
        want_clock = 10 if case["outer"] == "start" else 5
        if times != want or snap["clock"] != want_clock:
            ctx.viol("refused-command-changed-state", {**where, "executed_times": times, "expected": want, "snapshot": snap})
            return
        ctx.nontrivial = True
    finally:
        h.cleanup()


def run_case(case, ctx):
    from vlib.simharness import Harness, compare_traces, check_clock_monotone
    from vlib.refdevs import Ref, tnum, WARMUP
    if case.get("fam") == "rebound":
        return _rebound(case, ctx)
    if case.get("fam") == "refuse":
        return _refuse(case, ctx)
    if case.get("fam") == "lstop":
        return _lstop(case, ctx)
    if case.get("fam") == "tcsched":
        return _tcsched(case, ctx)
    prog, sched = case["prog"], case["sched"]
    ref = Ref(prog)
    ref.initialize()
    full = Ref(prog)
    full.initialize()
    full.run()
    h = Harness(prog)
    where = {"clock": prog["clock"], "schedule": sched}
    kinds, cut_at, cut_between = set(), False, False
    ev_times = sorted({t for tg, t, _ in full.trace if tg != WARMUP})
    try:
        if len(sched) % 5 == 2:
            # the simulator has served another replication before - with another run length (half or double): nothing of
            # it (its end time, its bound) is left when the judged replication runs
            from pydsol.core.experiment import SingleReplication
            from vlib.simharness import time_value
            r = prog["rep"]
            normal = h.replication
            f = 2 if len(sched) % 2 else 0.5
            ln = tnum(prog, r["length"]) * f
            ln = int(ln) if prog["clock"] == "int" else ln
            h.replication = SingleReplication("earlier", time_value(prog, r["start"]), time_value(prog, r["warmup"]) * 0,
                                              time_value(prog, [float(ln), "s"] if prog["clock"] == "duration" else ln))
            ctx.count("schedules_on_a_simulator_that_served_another_run_length")
            if h.cmd("initialize") == "ok" and h.cmd("start") == "ok":
                h.wait_quiescent(20)
            h.replication = normal
            h.reset_logs()
            where["earlier_run_length_factor"] = f
        if h.cmd("initialize") != "ok":
            ctx.viol("initialize-raises", where)
            return
        for ci, c in enumerate(sched):
            w = {**where, "command_index": ci, "command": c}
            first = len(h.hlog)
            nfirst = len(h.nlog)
            before = h.snapshot()
            startable = ref.can_start()
            name = c[0]
            kinds.add(name)
            if name == "nanbound":
                import math
                out = h.cmd(c[1], math.nan)
                h.wait_quiescent(20)
                snap = h.snapshot()
                ctx.count("not-a-number_bounds_issued")
                if out == "ok" or h.trace(first) or snap != before:
                    ctx.viol("not-a-number-bound:accepted-or-changed-something", {**w, "outcome": out, "before": before, "after": snap})
                    return
                continue
            if name == "run_up_to_at_end":
                if not startable:
                    break
                out = h.cmd("run_up_to", c[1])
                if not h.wait_quiescent(20):
                    ctx.viol("hang:segment-did-not-reach-quiescence", {**w, "snapshot": h.snapshot()})
                    return
                seg = ref.run(bound=tnum(prog, c[1]), including=False)
                ctx.count("exclusive_runs_up_to_exactly_the_end")
                if out != "ok":
                    ctx.viol(f"legal-command-refused:run_up_to:{out}", {**w, "before": before})
                    return
                if not compare_traces(ctx, h.trace(first), [(t, cl) for t, cl, _ in seg], w, what="segment"):
                    return
                if h.snapshot()["clock"] != num(ref.end):
                    ctx.viol("clock-after-segment:run_up_to", {**w, "got": h.snapshot()["clock"], "want": num(ref.end)})
                    return
                break
            if name in ("run_up_to", "run_up_to_including"):
                b = tnum(prog, c[1])
                if b in ev_times:
                    cut_at = True
                elif ev_times and ev_times[0] < b < ev_times[-1]:
                    cut_between = True
                out = h.cmd(name, c[1])
                backwards = b < ref.clock
                if startable and not backwards:
                    seg = ref.run(bound=b, including=(name == "run_up_to_including"))
                else:
                    seg = []
            elif name == "step":
                out = h.cmd("step")
                seg = ref.step() if startable else []
                backwards = False
            elif name == "pause":
                out, stop_out, parked = h.start_and_pause_after(c[1])
                backwards = False
                seg = ref.run(stop_after=c[1]) if startable else []
                if parked:
                    ctx.count("pauses_forced")
                    if stop_out != "ok":
                        ctx.viol(f"stop-of-a-running-simulator-refused:{stop_out}", w)
                        return
            else:
                out = h.cmd("start")
                backwards = False
                seg = ref.run() if startable else []
            if not h.wait_quiescent(20):
                ctx.viol("hang:segment-did-not-reach-quiescence", {**w, "snapshot": h.snapshot()})
                return
            snap = h.snapshot()
            ctx.count("segments_judged")
            got_seg = h.trace(first)
            if not startable:
                # ended (or clock at the end): the command must be refused and change nothing
                if out == "ok":
                    ctx.viol(f"command-accepted-after-the-end:{name}", {**w, "before": before, "after": snap})
                    return
                if got_seg or snap != before:
                    ctx.viol("refused-command-changed-state", {**w, "before": before, "after": snap, "executed": got_seg})
                    return
                continue
            if backwards:
                if got_seg or snap["clock"] < before["clock"]:
                    ctx.viol("bound-before-the-clock:moved-clock-back-or-executed", {**w, "before": before, "after": snap, "executed": got_seg})
                    return
                if out == "ok":
                    ref.state = "STOPPED"      # accepted as an empty run segment at the current clock
                continue
            if out != "ok":
                ctx.viol(f"legal-command-refused:{name}:{out}", {**w, "before": before})
                return
            want_seg = [(t, cl) for t, cl, _ in seg]
            late = [x for x in got_seg if x[1] > num(ref.end)]
            if late:
                ctx.viol("event-later-than-the-replication-end-executed", {**w, "events": late, "end": num(ref.end)})
                return
            if not compare_traces(ctx, got_seg, want_seg, w, what="segment"):
                return
            if name == "step" and not seg:
                ok_clock = before["clock"] <= snap["clock"] <= num(ref.end)
            else:
                ok_clock = snap["clock"] == num(ref.clock)
            if not ok_clock:
                ctx.viol(f"clock-after-segment:{name}", {**w, "got": snap["clock"], "want": num(ref.clock)})
                return
            ended_note = any(n[0] == "END_REPLICATION_EVENT" for n in h.nlog[nfirst:])
            if ref.state == "ENDED":
                if (snap["run_state"], snap["replication_state"]) != ("ENDED", "ENDED") or not ended_note:
                    ctx.viol("not-ended-although-the-bound-reached-the-end", {**w, "snapshot": snap, "end_notified": ended_note})
                    return
            else:
                if ended_note or snap["replication_state"] in ("ENDING", "ENDED") or snap["run_state"] == "ENDED":
                    ctx.viol("replication-ended-before-the-bound-reached-the-end", {**w, "snapshot": snap, "end_notified": ended_note})
                    return
                if snap["run_state"] != "STOPPED":
                    ctx.viol("not-resumable-after-a-bounded-run", {**w, "snapshot": snap})
                    return
                if snap["pending"] != len(ref.pending):
                    ctx.viol("pending-events-after-segment", {**w, "got": snap["pending"], "want": len(ref.pending)})
                    return
        # composition: the concatenation equals the uninterrupted run
        if ref.state == "ENDED" and sched[-1][0] != "run_up_to_at_end":
            ctx.count("compositions_judged")
            if not compare_traces(ctx, h.trace(), [(t, cl) for t, cl, _ in full.trace], where, what="composition"):
                return
            if h.snapshot()["clock"] != num(full.clock):
                ctx.viol("composition:final-clock", {**where, "got": h.snapshot()["clock"], "want": num(full.clock)})
                return
        if not check_clock_monotone(h, ctx, where):
            return
        ctx.nontrivial = len(kinds) >= 2 and cut_at and cut_between and ref.state == "ENDED"
        for k in kinds:
            ctx.seen("command_kinds", k)
    finally:
        h.cleanup()
