"""
C10 - weighted and time-weighted tallies compute weight/time integrals of their input.
Monitor: all public getters of the real objects after operations, compared with exact rational arithmetic:
weighted moments over the positively weighted observations; for the timestamp variant the exact integral of
the piecewise-constant signal (repeated timestamps overwrite the pending value) between first time and end
time.  Rejected inputs and observations after closing must leave every getter bit-identical.
"""
import math
from fractions import Fraction

ID = "C10"
LEVEL = "exploration"
TECHNIQUE = "runtime monitor: all getters after every operation vs exact rational weighted moments / exact step-function integral"
RULE = ("family W: seeded (weight, value) sequences with weights from {0, tiny, 1, large, random}, all-zero prefixes "
        "and whole histories, equal values, rejected inputs (negative/NaN weight, NaN value, str) and initialize(), on "
        "WeightedTally / EventBasedWeightedTally(+subscriber; register and notify), 20% 'sparse' cases asking one getter at a few moments only; family T: (time, value) sequences "
        "with repeated timestamps, int/float times, close at/after the last timestamp or with no observation, "
        "observations after closing (later, equal and earlier timestamps), earlier timestamps, re-initialise and "
        "reuse, on TimestampWeightedTally / EventBasedTimestampWeightedTally(+subscriber; register and notify); "
        "non-trivial(W) = >=1 zero and >=2 positive weights with unequal values; non-trivial(T) = >=1 repeated "
        "timestamp, closed, and >=1 observation after closing; distinct = canonical sequence hash")
RULE += '; in a quarter of the subscriber-less cases the statistic is replaced by a pickle / deepcopy / copy of itself at a random point and after re-initialisations'
RULE += '; 40% of the closed tallies are closed a second time, later'
ASSUMPTIONS = ["weights/timestamps finite in [0, 1e9], values finite with |x| in {0} or [1e-6, 1e9]",
               "when the total weight is 0, mean/variance/stdev are undefined: only 'returns a float or NaN, never raises' is judged",
               "n/min/max of the timestamp variant and last_value() after closing are outside the statement and not judged",
               "a statistic whose conditioning-aware tolerance exceeds 1e-3 is judged for totality only"]


def plan(tier):
    n = 16000 if tier == "quick" else 1200000
    return {"cases": n, "shards": 16, "timeout": 900 if tier == "quick" else 3600, "min_nontrivial": 500,
            "min": {"getter_comparisons": 200000, "rejected_inputs": 2000, "zero_total_weight_states": 500,
                    "after_close_observations": 1000}}


def _value(rng, klass):
    if klass == "equal":
        return 4.0
    if klass == "int":
        return rng.randint(-9, 9)
    if klass == "mixed":
        return rng.choice([-1, 1]) * 10 ** rng.uniform(-6, 9)
    if klass == "huge":
        # finite values so far apart that squares of their differences leave the float range (only totality, n, min and
        # max are judged there)
        return rng.choice([1.0, -2.5, 1e160, -3e155, 2e154, 1e200])
    return rng.uniform(-100, 100)


def gen_case(rng, tier, i):
    if i % 2 == 0:
        cls = rng.choice(["WeightedTally", "EventBasedWeightedTally", "EventBasedWeightedTally+sub", "EventBasedWeightedTally+sub", "EventBasedWeightedTally+resub"])
        entry = rng.choice(["register", "notify"]) if cls.startswith("EventBased") else "register"
        n = rng.choice([0, 1, 2, 3, 5, 10, 10, 40, 200])
        klass = rng.choice(["equal", "int", "mixed", "uniform", "uniform", "huge"])
        wmode = rng.choice(["allzero", "zeroprefix", "mixed", "mixed", "positive", "ints"])
        ops = []
        for k in range(n):
            if wmode == "allzero" or (wmode == "zeroprefix" and k < n // 2):
                w = rng.choice([0, 0.0])
            elif wmode == "ints":
                w = rng.randint(0, 5)
            elif wmode == "positive":
                w = 10 ** rng.uniform(-6, 6)
            else:
                w = rng.choice([0, 0.0, 1e-9, 1, 1.0, 1e6, rng.uniform(0, 10)])
            r = rng.random()
            if r < 0.05:
                ops.append(["bad", rng.choice(["negw", "nanw", "nanv", "strw", "strv", "hugev", "hugew"])])
            elif r < 0.065:
                ops.append(["init"])
            ops.append(["obs", w, _value(rng, klass)])
        if rng.random() < 0.3:
            ops.append(["bad", rng.choice(["negw", "nanw", "nanv"])])
        case = {"fam": "W", "cls": cls, "entry": entry, "ops": ops, "klass": klass}
        obs = [o for o in ops if o[0] == "obs"]
        if len(obs) >= 4 and rng.random() < 0.2:
            # 'sparse' mode: one getter, asked only at a few moments, equally many observations before and after a
            # re-initialisation with nothing queried in between (a memoised answer must not survive new data or a reset)
            k = min(len(obs) // 2, 12)
            case["sparse"] = rng.choice(["n", "min", "max", "weighted_sum", "weighted_mean", "weighted_variance_b", "weighted_variance_u",
                                         "weighted_stdev_b", "weighted_stdev_u"])
            case["ops"] = obs[:k] + [["q"], ["init"]] + obs[-k:] + [["q"], obs[0], ["q"], ["init"]] + obs[:k] + [["q"]]
        return _with_clones(rng, case)
    cls = rng.choice(["TimestampWeightedTally", "EventBasedTimestampWeightedTally", "EventBasedTimestampWeightedTally+sub",
                      "EventBasedTimestampWeightedTally+sub", "EventBasedTimestampWeightedTally+resub"])
    entry = rng.choice(["register", "notify"]) if cls.startswith("EventBased") else "register"
    klass = rng.choice(["equal", "int", "mixed", "uniform"])
    tkind = rng.choice(["int", "float", "mixedtypes", "bigint"])
    if tkind == "bigint" and entry == "notify":
        tkind = "int"       # the data-event entry point converts time stamps to float by design; exact huge ints only via register()
    ops = []
    t = rng.choice([0, 0, 5, 100, -3]) if tkind != "float" else rng.choice([0.0, 2.5, 1000.0, -0.7, -2.3, -10.1, -0.1, 2.0 ** 30, 2.0 ** 30, 1.7e9])   # clocks may start below zero, or at an epoch time (sub-second gaps are then < 1e-9 relative)
    if tkind == "bigint":
        t = rng.choice([2 ** 53, 17 * 10 ** 17, 2 ** 60 + 1])      # e.g. nanosecond epoch clocks: exact ints beyond 2**53
    for rep in range(rng.choice([1, 1, 2])):
        n = rng.choice([0, 1, 2, 3, 6, 12, 40])
        # time stamps that were not computed from each other (read from a log, a schedule): for those `last + (t - last)`
        # need not give `t` back, e.g. across zero
        grid = None
        if tkind == "float" and rng.random() < 0.35:
            grid = sorted(rng.choice([-0.1 * rng.randint(1, 40), 0.07 * rng.randint(1, 40), 0.0, 1e-3 * rng.randint(-99, 99)]) for _ in range(n))
            grid = [g for g in grid if g >= t] if rep else grid
            n = len(grid)
        for k_ in range(n):
            step = rng.choice([0, 0, 1, 2, 0.5, 0.1, 0.3, rng.uniform(0, 5)]) if tkind not in ("int", "bigint") else rng.choice([0, 0, 1, 1, 2, 7])
            if grid is not None:
                t = grid[k_] if (k_ == 0 or rng.random() < 0.7) else t      # (30% repeats of the previous time stamp)
                t = max(t, grid[k_ - 1]) if k_ else t
            else:
                t = t + step
            r = rng.random()
            if r < 0.06:
                ops.append(["earlier", t - rng.choice([1, 0.25, 1e-9 * max(1.0, abs(t)) * 4 + 1e-6]), _value(rng, klass)])
            elif r < 0.075:
                ops.append(["bad_end", rng.choice(["earlier", "nan"]), t - 1])
            elif r < 0.09:
                ops.append(["bad", rng.choice(["nant", "nanv", "strt"])])
            ops.append(["obs", t, _value(rng, klass)])
        if rng.random() < 0.85:
            t = t + (rng.choice([0, 0, 1, 3.5, 10]) if tkind != "bigint" else rng.choice([0, 1, 3, 10]))
            ops.append(["end", t])
            for _ in range(rng.randint(0, 3)):
                t2 = t + (rng.choice([0, 1, 2.5]) if tkind != "bigint" else rng.choice([0, 1, 2]))
                ops.append(["after", t2, _value(rng, klass)])
                if rng.random() < 0.3:
                    ops.append(["earlier", t - 1, _value(rng, klass)])
            if rng.random() < 0.4:
                # closed a second time, later (e.g. by hand and again by the end of the replication): ignored like any other
                # observation after the close
                ops.append(["end", t + (rng.choice([0, 1, 30]) if tkind != "bigint" else rng.choice([0, 1, 30]))])
        if rep == 0:
            ops.append(["init"])
            t = rng.choice([t, 0, t + 3]) if tkind != "bigint" else rng.choice([t, t + 3])
    return _with_clones(rng, {"fam": "T", "cls": cls, "entry": entry, "ops": ops})


def _with_clones(rng, case):
    """in a quarter of the cases without subscribers the statistic object is replaced by a copy of itself (pickle round trip,
    deepcopy, copy) - also while still empty or just re-initialised - and the copy carries on"""
    if "+" in case["cls"] or rng.random() >= 0.25:
        return case
    ops2 = []
    for o in case["ops"]:
        ops2.append(o)
        if o[0] == "init" and rng.random() < 0.6:
            ops2.append(["clone", rng.choice(["pickle", "deepcopy", "copy"])])
    ops2.insert(0 if rng.random() < 0.5 else rng.randint(0, len(ops2)), ["clone", rng.choice(["pickle", "pickle", "deepcopy", "copy"])])
    case["ops"] = ops2
    return case


def _clone(ctx, t, how, where):
    import copy, pickle
    ctx.count("statistic_replaced_by_a_copy_of_itself")
    try:
        return pickle.loads(pickle.dumps(t)) if how == "pickle" else copy.deepcopy(t) if how == "deepcopy" else copy.copy(t)
    except Exception as e:
        ctx.viol(f"copy-raises:{how}:{type(e).__name__}", {**where, "exc": repr(e)})
        return None


def _foreign(name):
    from checks.c09_tally import _foreign as f
    return f(name)


def _getters(ctx, t, where, only=None):
    out = {}
    calls = {"n": t.n, "min": t.min, "max": t.max, "weighted_sum": t.weighted_sum, "weighted_mean": t.weighted_mean,
             "weighted_variance_b": t.weighted_variance, "weighted_variance_u": lambda: t.weighted_variance(False),
             "weighted_stdev_b": t.weighted_stdev, "weighted_stdev_u": lambda: t.weighted_stdev(False)}
    for name, fn in calls.items():
        if only is not None and name != only:
            continue
        try:
            out[name] = fn()
        except Exception as e:
            ctx.viol(f"getter-raises:{name.rsplit('_', 1)[0] if name[-2:] in ('_b', '_u') else name}:{type(e).__name__}",
                     {**where, "getter": name, "exc": repr(e)})
            out[name] = ("raised", type(e).__name__)
    return out


def _make(case):
    from pydsol.core import statistics as S
    from pydsol.core.pubsub import EventListener
    from pydsol.core.interfaces import StatEvents
    t = getattr(S, case["cls"].split("+")[0])("c10")
    if case["cls"].endswith("+sub"):
        class Sub(EventListener):
            def notify(self, event):
                pass
        sub = Sub()
        for et in (StatEvents.OBSERVATION_ADDED_EVENT, StatEvents.WEIGHTED_MEAN_EVENT, StatEvents.WEIGHTED_SAMPLE_STDEV_EVENT,
                   StatEvents.WEIGHTED_POPULATION_VARIANCE_EVENT, StatEvents.INITIALIZED_EVENT):
            t.add_listener(et, sub)
    if case["cls"].endswith("+resub"):
        # a subscriber of INITIALIZED that registers a baseline observation from inside the notification (re-entrant):
        # the observation is made after the reset, so it counts
        class Resub(EventListener):
            hook = None

            def notify(self, event):
                if self.hook:
                    self.hook()
        t._verif_resub = Resub()
        t.add_listener(StatEvents.INITIALIZED_EVENT, t._verif_resub)
    return t


def _judge(ctx, got, want, where, skip=()):
    from vlib.exactstats import close
    from vlib.base import fx
    for name, (w, tol) in want.items():
        if name in skip or name not in got:
            continue
        g = got[name]
        if isinstance(g, tuple) and g and g[0] == "raised":
            return False
        ctx.count("getter_comparisons")
        if tol is None:
            ctx.count("ill_conditioned_totality_only")
        if not close(g, w, tol):
            ctx.viol(f"getter-value:{name.rsplit('_', 1)[0] if name[-2:] in ('_b', '_u') else name}",
                     {**where, "getter": name, "got": fx(g), "want": fx(w), "tol": tol})
            return False
    return True


def run_case(case, ctx):
    if case["fam"] == "T":
        return _run_T(case, ctx)
    from pydsol.core.pubsub import Event
    from pydsol.core.interfaces import StatEvents
    from vlib.exactstats import ExactWeighted
    from vlib.base import fx
    t = _make(case)
    ex = ExactWeighted()
    zeros = pos = 0
    vals = set()
    for opi, op in enumerate(case["ops"]):
        where = {"op_index": opi, "op": op, "cls": case["cls"], "entry": case["entry"], "n_before": ex.n}

        def feed(w, v):
            if case["entry"] == "notify":
                t.notify(Event(StatEvents.WEIGHT_DATA_EVENT, (w, v)))
            else:
                t.register(w, v)
        if op[0] == "obs":
            try:
                feed(op[1], op[2])
            except Exception as e:
                ctx.viol(f"register-raises:{type(e).__name__}", {**where, "exc": repr(e)})
                return
            ex.add(op[1], op[2])
            if op[1] == 0:
                zeros += 1
            else:
                pos += 1
                vals.add(op[2])
        elif op[0] == "init":
            if hasattr(t, "_verif_resub"):
                t._verif_resub.hook = lambda: t.register(1.0, 3.0)
                ctx.count("re-entrant_baselines_from_INITIALIZED")
            t.initialize()
            ex.reset()
            if hasattr(t, "_verif_resub"):
                ex.add(1.0, 3.0)
                pos += 1
        elif op[0] == "q":
            pass
        elif op[0] == "clone":
            t = _clone(ctx, t, op[1], where)
            if t is None:
                return
            continue
        else:
            w, v = {"negw": (-1.0, 2.0), "nanw": (math.nan, 2.0), "nanv": (1.0, math.nan), "strw": ("x", 2.0), "strv": (1.0, "x"),
                    "hugev": (1.0, 10 ** 400), "hugew": (10 ** 400, 2.0)}[op[1]]      # ints beyond the float range are no observations
            before = fx(list(_getters(ctx, t, where).values()))
            ctx.count("rejected_inputs")
            try:
                feed(w, v)
                ctx.viol(f"invalid-observation-accepted:{op[1]}", where)
                return
            except Exception:
                pass
            if case["entry"] == "notify":
                # notifications that are not a (weight, value) data event for this statistic
                for what, ev in (("plain-data-event", Event(StatEvents.DATA_EVENT, (1.0, 2.0))), ("list-content", Event(StatEvents.WEIGHT_DATA_EVENT, [1.0, 2.0])),
                                 ("triple", Event(StatEvents.WEIGHT_DATA_EVENT, (1.0, 2.0, 3.0))), ("scalar", Event(StatEvents.WEIGHT_DATA_EVENT, 2.0)),
                                 ("foreign-type-of-the-same-name", Event(_foreign("WEIGHT_DATA_EVENT"), (1.0, 2.0)))):
                    ctx.count("malformed_notifications")
                    try:
                        t.notify(ev)
                        ctx.viol(f"invalid-observation-accepted:notify:{what}", where)
                        return
                    except Exception:
                        pass
            if fx(list(_getters(ctx, t, where).values())) != before:
                ctx.viol("rejected-input-changed-getters", where)
                return
            continue
        sparse = case.get("sparse")
        if sparse:
            if op[0] != "q":
                continue
            ctx.count("sparse_queries")
        got = _getters(ctx, t, where, only=sparse)
        if ex.n > 0 and ex.W == 0:
            ctx.count("zero_total_weight_states")
        if case.get("klass") == "huge":
            want = {k: ((ex.n if k == "n" else ex.min if k == "min" else ex.max), 0) if k in ("n", "min", "max") else (math.nan, "any") for k in got}
        else:
            want = ex.expected()
        if not _judge(ctx, got, want, where):
            return
    ctx.nontrivial = zeros >= 1 and pos >= 2 and len(vals) >= 2


def _run_T(case, ctx):
    from pydsol.core.pubsub import TimedEvent
    from pydsol.core.interfaces import StatEvents
    from vlib.exactstats import ExactWeighted, EPS
    from vlib.base import fx
    t = _make(case)
    ex = ExactWeighted()        # fed with the exact segments (duration, value)
    first = last = None          # first / last accepted timestamp (exact)
    pending = None               # value holding since `last`
    closed = False
    flags = {"repeat": 0, "closed": 0, "after": 0}

    def feed(ts, v):
        if case["entry"] == "notify":
            t.notify(TimedEvent(ts, StatEvents.TIMESTAMP_DATA_EVENT, v))
        else:
            t.register(ts, v)

    for opi, op in enumerate(case["ops"]):
        where = {"op_index": opi, "op": op, "cls": case["cls"], "entry": case["entry"]}
        k = op[0]
        if k == "clone":
            t = _clone(ctx, t, op[1], where)
            if t is None:
                return
            continue
        if k == "init":
            # the baseline carries the time stamp of the next observation of the script (so the script stays valid)
            nxt = next((o[1] for o in case["ops"][opi + 1:] if o[0] in ("obs", "end", "after")), None)
            base_ts = Fraction(nxt) if isinstance(nxt, (int, float)) else (last if last is not None else Fraction(0))
            if hasattr(t, "_verif_resub"):
                t._verif_resub.hook = lambda: t.register(nxt if isinstance(nxt, (int, float)) else (float(base_ts) if base_ts.denominator != 1 else int(base_ts)), 7.0)
                ctx.count("re-entrant_baselines_from_INITIALIZED")
            try:
                t.initialize()
            except Exception as e:
                ctx.viol(f"initialize-raises:{type(e).__name__}", {**where, "exc": repr(e)})
                return
            ex.reset()
            first = last = pending = None
            closed = False
            if hasattr(t, "_verif_resub"):
                first = last = base_ts
                pending = 7.0
            if not t.isactive():
                ctx.viol("inactive-after-initialize", where)
                return
        elif k in ("obs", "after", "end"):
            ts = op[1]
            if closed:
                # ignored until the next initialisation: every judged getter stays bit-identical
                before = fx({n: v for n, v in _getters(ctx, t, where).items()})
                ctx.count("after_close_observations")
                try:
                    if k == "end":
                        t.end_observations(ts)
                    else:
                        feed(ts, op[2])
                except Exception as e:
                    if last is not None and ts >= last:
                        ctx.viol(f"observation-after-close-raises:{type(e).__name__}", {**where, "exc": repr(e)})
                        return
                if fx({n: v for n, v in _getters(ctx, t, where).items()}) != before:
                    ctx.viol("observation-after-close-changed-getters", {**where, "before": before})
                    return
                if last is not None and ts > last:
                    pass        # (the library may or may not move its internal clock; not observable through getters)
                flags["after"] += 1
                continue
            try:
                if k == "end":
                    t.end_observations(ts)
                else:
                    feed(ts, op[2])
            except Exception as e:
                ctx.viol(f"register-raises:{type(e).__name__}", {**where, "exc": repr(e)})
                return
            fts = Fraction(ts)
            if first is None:
                if k != "end":
                    first = last = fts
                    pending = op[2]
                # closing with no observation at all: nothing is known, nothing integrates
            else:
                if fts > last:
                    ex.add(fts - last, pending)
                    last = fts
                else:
                    flags["repeat"] += 1
                if k != "end":
                    pending = op[2]
            if k == "end":
                closed = True
                flags["closed"] += 1
                if t.isactive():
                    ctx.viol("still-active-after-end_observations", where)
                    return
        elif k == "bad_end":
            # a close that must be refused (earlier than the last timestamp, or NaN): nothing changes, still active
            if closed or last is None or (op[1] == "earlier" and Fraction(op[2]) >= last):
                continue
            ts = math.nan if op[1] == "nan" else op[2]
            before = fx(list(_getters(ctx, t, where).values()))
            ctx.count("rejected_inputs")
            try:
                t.end_observations(ts)
                ctx.viol("invalid-close-accepted", where)
                return
            except Exception:
                pass
            if fx(list(_getters(ctx, t, where).values())) != before or not t.isactive():
                ctx.viol("rejected-close-changed-the-tally", {**where, "active": t.isactive()})
                return
            continue
        elif k == "earlier":
            if last is None or Fraction(op[1]) >= last:
                continue
            before = fx(list(_getters(ctx, t, where).values()))
            ctx.count("rejected_inputs")
            try:
                feed(op[1], op[2])
                ctx.viol("earlier-timestamp-accepted", where)
                return
            except Exception:
                pass
            if fx(list(_getters(ctx, t, where).values())) != before:
                ctx.viol("rejected-input-changed-getters", where)
                return
            continue
        else:
            ts, v = {"nant": (math.nan, 1.0), "nanv": (float(last or 0) + 1.0, math.nan), "strt": ("x", 1.0)}[op[1]]
            before = fx(list(_getters(ctx, t, where).values()))
            ctx.count("rejected_inputs")
            try:
                feed(ts, v)
                ctx.viol(f"invalid-observation-accepted:{op[1]}", where)
                return
            except Exception:
                pass
            if fx(list(_getters(ctx, t, where).values())) != before:
                ctx.viol("rejected-input-changed-getters", where)
                return
            continue
        got = _getters(ctx, t, where)
        want = ex.expected()
        # widen for the float rounding of the durations themselves (time stamps up to ~1e4, relative 2^-52 each)
        span = float(last - first) if first is not None else 0.0
        if ex.W == 0:
            ctx.count("zero_total_weight_states")
        if not _judge(ctx, got, want, where, skip=("n", "min", "max")):
            return
        if ex.W > 0:
            # total weight == span: weighted_sum / weighted_mean must reproduce (end - first)
            ctx.count("span_checks")
            ws, wm = got["weighted_sum"], got["weighted_mean"]
            if isinstance(ws, float) and isinstance(wm, float) and abs(wm) > 1e-3 * ex.maxabs and want["weighted_mean"][1] is not None:
                implied = ws / wm
                if abs(implied - span) > 1e-6 * span:
                    ctx.viol("total-weight-differs-from-span", {**where, "implied_total_weight": implied, "span": span})
                    return
    ctx.nontrivial = flags["repeat"] >= 1 and flags["closed"] >= 1 and flags["after"] >= 1
