"""
C02 - DEVS execution: each scheduled event runs exactly once, in time/priority order.
Monitor: generated model programs are executed by the real simulator (start() to the end of the replication)
and by the reference DEVS interpreter; the handler log (tag, clock seen inside the handler), the outcome of
every scheduling request with the pending size before/after, every write of the simulator clock and the
final clock are compared.
"""
from vlib.simharness import num
ID = "C02"
LEVEL = "exploration"
TECHNIQUE = "runtime monitor: handler/scheduling/clock-write history of the real simulator vs reference DEVS interpreter on generated model programs"
RULE = ("seeded random model programs (5-60 events; trees of handlers scheduling now / rel / abs / prebuilt events with "
        "priorities 1-10, exact time ties on a few hot instants, zero and -0.0 delays, events at and beyond the horizon, "
        "first events from construct_model and (30%) from a method registered with add_initial_method, cancel of pending / executed / own / not-yet-created events, illegal requests: negative, past, NaN, None, str) "
        "on the float, int and Duration (mixed display units) clocks, a quarter of them driven through a bounded run before the final start, one in eight by step() alone, one in eight next to a second live simulator with its own model; non-trivial = program with >=1 time tie with "
        "different priorities, >=1 tie on (time, priority), >=1 cancel of a pending event and >=1 refused request; "
        "distinct = canonical program hash")
ASSUMPTIONS = ["an illegal scheduling request is refused when any exception is raised and the pending size is unchanged",
               "programs run with the default error strategy and contain no failing handlers (C05's subject)"]


def plan(tier):
    n = 9000 if tier == "quick" else 600000
    return {"cases": n, "shards": 12, "timeout": 900 if tier == "quick" else 5400, "min_nontrivial": 60,
            "min": {"trace_events_compared": 20000, "scheduling_requests_judged": 20000, "clock_writes_observed": 20000}}


def gen_case(rng, tier, i):
    from vlib.proggen import gen_program
    clock = ["float", "int", "duration"][i % 3]
    # one case in sixteen starts at a negative time and is cut by a bounded run at exactly zero (a zero bound - 0, 0.0,
    # Duration(0) - is a bound like any other); a via_bound of 0.0 is a bounded run up to the start time itself
    zero_cut = i % 16 == 7
    if zero_cut:
        prog = gen_program(rng, clock=clock, n_events=rng.randint(5, 60), fractional=True, horizon=20, start_at=(-10 if clock != "duration" else None),
                           with_bad=(clock == "duration"))     # (the illegal requests of the generator presume a start >= 0)
    else:
        prog = gen_program(rng, clock=clock, n_events=rng.randint(5, 60), bigint=True, fractional=True)
    if zero_cut:
        return {"prog": prog, "via_bound": 0.5 if clock != "duration" else 0.0, "via_steps": False, "neighbour": False, "torn_down": False}
    # one case in four reaches the end through a bounded run first (the executed events must be the same; the horizon
    # rules themselves are C03's subject): the bound is a fraction of the run length added to the start time
    return {"prog": prog, "via_bound": rng.choice([None, None, None, 0.0, 0.25, 0.5, 0.75, 1.25, 2.0]) if i % 4 == 3 else None,     # (a bound beyond the end is the end itself, events at the end included)
            "via_steps": i % 8 == 5,        # one case in eight is driven by step() alone
            # one case in eight shares the process with a second, live simulator of the same kind (its own model, initialised
            # after the judged one and run after it): two simulators have nothing in common
            "neighbour": i % 8 == 2,
            # one case in eight runs on a simulator that was initialised, stepped twice, torn down with cleanup() and is now reused
            "torn_down": i % 8 == 6}


def shard_teardown(tier, ctx):
    from vlib import simharness
    simharness.cleanup_all()


def run_case(case, ctx):
    from vlib.simharness import Harness, compare_traces, check_clock_monotone
    from vlib.refdevs import Ref, WARMUP
    prog = case["prog"]
    where = {"clock": prog["clock"]}
    ref = Ref(prog)
    ref.initialize()
    ref.run()
    h = Harness(prog)
    nb = None
    try:
        if case.get("torn_down"):
            ctx.count("runs_on_a_torn_down_and_reused_simulator")
            if h.cmd("initialize") == "ok":
                h.cmd("step"); h.wait_quiescent(20)
                h.cmd("step"); h.wait_quiescent(20)
            h.cmd("cleanup")
            h.reset_logs()
        out = h.cmd("initialize")
        if out != "ok":
            ctx.viol(f"initialize-raises:{out}", where)
            return
        if h.initial_methods_run != (1 if prog.get("initial") else 0):
            # (many simulators have lived in this process before this one: only the model's own initial method runs, once)
            ctx.viol("initialize-ran-initial-methods-that-are-not-this-simulators", {**where, "ran": h.initial_methods_run, "own": 1 if prog.get("initial") else 0})
            return
        nb = None
        if case.get("neighbour"):
            lit = (lambda v: [float(v), "s"]) if prog["clock"] == "duration" else (lambda v: int(v) if prog["clock"] == "int" else float(v))
            nprog = {"clock": prog["clock"], "rep": {"start": lit(0), "warmup": lit(0), "length": lit(8)},
                     "init": [["abs", lit(t), 5, f"n{t}"] for t in (1, 3, 3, 6, 9)], "handlers": {"n1": [["rel", lit(1), 7, "m2"]]}}
            nb = Harness(nprog, "neighbour")
            ctx.count("runs_next_to_a_second_live_simulator")
            if nb.cmd("initialize") != "ok":
                ctx.viol("initialize-raises:neighbour", where)
                return
            nb_pending = nb.snapshot()["pending"]
            own_pending = h.snapshot()["pending"]
            if own_pending != len(ref0_pending(prog)):
                ctx.viol("pending-events-changed-by-another-simulator", {**where, "got": own_pending, "want": len(ref0_pending(prog))})
                return
        if case.get("via_bound") is not None:
            from vlib.refdevs import tnum
            start_t, length = tnum(prog, prog["rep"]["start"]), tnum(prog, prog["rep"]["length"])
            b = start_t + (int(case["via_bound"] * length) if prog["clock"] == "int" else case["via_bound"] * length)
            lit = [float(b), "s"] if prog["clock"] == "duration" else b
            ctx.count("runs_through_a_bounded_run_first")
            if h.cmd("run_up_to", lit) != "ok" or not h.wait_quiescent(20):
                ctx.viol("bounded-run-refused-or-hung", {**where, "bound": lit, "snapshot": h.snapshot()})
                return
            if b < start_t + length:
                # an exclusive run that stops short of the end has executed exactly the events before its bound and left
                # the clock at the bound; the replication has not ended
                done = h.trace()
                want_n = sum(1 for tag, t, _ in ref.trace if tag != WARMUP and t < b)
                sn = h.snapshot()
                ctx.count("bounded_runs_short_of_the_end_judged")
                if b == 0:
                    ctx.count("bounded_runs_with_a_bound_of_exactly_zero")
                if any(t >= b for _, t in done) or len(done) != want_n or sn["run_state"] == "ENDED" or sn["clock"] != max(b, start_t):
                    ctx.viol("bounded-run-short-of-the-end:events-or-clock-or-state", {**where, "bound": lit, "executed": len(done), "want": want_n,
                                                                                      "beyond_bound": [x for x in done if x[1] >= b][:3], "snapshot": sn})
                    return
        if case.get("via_steps"):
            ctx.count("runs_driven_by_step_alone")
            for _ in range(4 * len(ref.trace) + 20):
                if h.sim.run_state.name == "ENDED":
                    break
                before_step = (len(h.hlog), sum(1 for n in h.nlog if n[0] == "WARMUP_EVENT"))
                o = h.cmd("step")
                if o != "ok":
                    ctx.viol(f"step-refused-before-the-end:{o}", {**where, "snapshot": h.snapshot()})
                    return
                h.wait_quiescent(20)
                if (len(h.hlog), sum(1 for n in h.nlog if n[0] == "WARMUP_EVENT")) == before_step:
                    break           # nothing left that a step may execute (only events beyond the end)
            # stepping until nothing moves any more has executed every event of the uninterrupted run
            if not compare_traces(ctx, h.trace(), [(t, c) for t, c, _ in ref.trace if t != WARMUP], {**where, "driver": "step() until nothing moves"}, what="steps"):
                return
        out = h.cmd("start") if h.sim.run_state.name != "ENDED" else "ok"
        if out != "ok":
            ctx.viol(f"start-refused:{out}", {**where, "via_bound": case.get("via_bound")})
            return
        if not h.wait_quiescent(20):
            ctx.viol("hang:run-did-not-reach-quiescence", {**where, "snapshot": h.snapshot()})
            return
        snap = h.snapshot()
        # scheduling requests, aligned by (parent tag, action index): every handler runs at most once
        want = ref.sched
        got = [s for s in h.slog if s[2] != "cancel"]

        def judge(only_bad):
            for g in got:
                parent, idx, kind, outc, before, after = g
                if only_bad != kind.startswith("bad"):
                    continue
                expect = want.by_key.get((parent, idx))
                if expect is None:
                    continue        # the handler did not run in the reference: the trace comparison reports that
                ctx.count("scheduling_requests_judged")
                if expect == "refused":
                    if outc == "ok":
                        ctx.viol(f"illegal-scheduling-accepted:{_badkind(prog, parent, idx)}",
                                 {**where, "request": g, "action": _action(prog, parent, idx)})
                        return False
                    if after != before:
                        ctx.viol("refused-request-changed-pending-events", {**where, "request": g})
                        return False
                else:
                    if outc != "ok":
                        ctx.viol(f"legal-scheduling-refused:{kind}:{outc}", {**where, "request": g,
                                                                             "action": _action(prog, parent, idx)})
                        return False
                    if after != before + 1:
                        ctx.viol("accepted-request-did-not-add-one-event", {**where, "request": g})
                        return False
            return True
        if not judge(True):
            return
        if not compare_traces(ctx, h.trace(), [(t, c) for t, c, _ in ref.trace], where):
            return
        if not judge(False):
            return
        if len(got) != len(want):
            ctx.viol("scheduling-request-count-differs", {**where, "got": len(got), "want": len(want)})
            return
        if not check_clock_monotone(h, ctx, where):
            return
        if snap["clock"] != num(ref.clock):
            ctx.viol("final-clock", {**where, "got": snap["clock"], "want": num(ref.clock)})
            return
        if snap["run_state"] != "ENDED":
            ctx.viol("not-ended-after-start", {**where, "snapshot": snap})
            return
        # handlers saw the clock type of the simulator
        ctype = {"float": ("float", "int"), "int": ("int", "float"), "duration": ("Duration",)}[prog["clock"]]     # (an int clock takes fractional event times)
        for tag, c, tn, pr in h.hlog:
            if tn not in ctype:
                ctx.viol("clock-type-inside-handler", {**where, "tag": tag, "type": tn})
                return
        if nb is not None:
            # the neighbour was left alone by the judged run and now runs its own events
            if nb.snapshot()["pending"] != nb_pending or nb.hlog:
                ctx.viol("pending-events-changed-by-another-simulator", {**where, "neighbour_pending": nb.snapshot()["pending"], "want": nb_pending,
                                                                         "neighbour_executed": nb.trace()})
                return
            nref = Ref(nb.prog)
            nref.initialize()
            nref.run()
            if nb.cmd("start") != "ok" or not nb.wait_quiescent(20):
                ctx.viol("hang:neighbour", {**where, "snapshot": nb.snapshot()})
                return
            if not compare_traces(ctx, nb.trace(), [(t, c) for t, c, _ in nref.trace], {**where, "simulator": "neighbour"}, what="neighbour"):
                return
        ctx.nontrivial = _nontrivial(ref, h)
        ctx.seen("clock_kinds", prog["clock"])
    finally:
        h.cleanup()
        if nb is not None:
            nb.cleanup()


def ref0_pending(prog):
    """the reference's pending events right after initialize"""
    from vlib.refdevs import Ref
    r = Ref(prog)
    r.initialize()
    return r.pending


def _action(prog, parent, idx):
    acts = prog["init"] if parent is None else prog.get("initial", []) if parent == "@initial" else prog["handlers"].get(parent, [])
    return acts[idx] if idx < len(acts) else None


def _badkind(prog, parent, idx):
    a = _action(prog, parent, idx)
    if not a:
        return "?"
    return f"{a[0]}:{a[1]}" if a[0].startswith("bad") else f"{a[0]}:in-the-past"


def _nontrivial(ref, h):
    tr = [(t, c, p) for t, c, p in ref.trace if not t.startswith("__")]
    tie_p = any(a[1] == b[1] and a[2] != b[2] for a, b in zip(tr, tr[1:]))
    tie_tp = any(a[1] == b[1] and a[2] == b[2] for a, b in zip(tr, tr[1:]))
    cancelled = any(v == "cancelled" for v in ref.where.values())
    refused = "refused" in ref.sched
    return tie_p and tie_tp and cancelled and refused
