"""
C16 - quantity arithmetic is dimensionally sound and type safe.
Monitor: configuration sweep over the real classes with the SI-signature calculus as the oracle:
all ordered pairs of quantity types x {*, /} x value/unit choices; number-by-quantity and quantity-by-SI
combinations; mixed-type + - < <= > >= must be refused; same-type arithmetic acts on SI values;
as_quantity succeeds exactly on matching signatures; unit strings round-trip through all 8 print formats.
"""
import itertools
import math

ID = "C16"
LEVEL = "exploration"
TECHNIQUE = "runtime monitor: exhaustive type-pair sweep with the SI signature calculus as oracle, bit-exact SI values"
RULE = ("family 'pair': every ordered pair of the quantity classes (41x41) x {*,/} x 6 value pairs x base/non-base "
        "units; family 'single': per class number*q, q*number, q/number, number/q, q*SI, q/SI, SI*q, SI/q, same-type "
        "+ - < <= > >= == abs neg (incl. NaN/inf/-inf operands for the comparisons), mixed-type refusals against every other class; family 'sig': all SI signatures "
        "with <= 3 non-zero exponents in -3..3 (19495) x 8 print formats x parse, plus as_quantity against all "
        "classes; family 'rnd': random full signatures/values; non-trivial = the case made at least one "
        "cross-type product or quotient whose result is a named quantity or has a non-zero signature; distinct = "
        "canonical case hash")
RULE += '; comparisons also between a value, its neighbouring floats and the same value re-expressed in other units'
ASSUMPTIONS = ["operands are finite non-zero floats/ints so products and quotients are finite",
               "the signature of a named quantity is what Quantity.sisig() reports"]

VALS = [(2.0, 4.0), (0.1, 0.3), (-7.5, 1e-3), (1e12, 3.0), (1 / 3, 7 / 9), (5, 2)]


SI_DEFINITIONS = {
    "Acceleration": [0, 0, 0, 1, -2, 0, 0, 0, 0], "Angle": [1, 0, 0, 0, 0, 0, 0, 0, 0], "AngularAcceleration": [1, 0, 0, 0, -2, 0, 0, 0, 0],
    "AngularVelocity": [1, 0, 0, 0, -1, 0, 0, 0, 0], "Area": [0, 0, 0, 2, 0, 0, 0, 0, 0], "Density": [0, 0, 1, -3, 0, 0, 0, 0, 0],
    "Dimensionless": [0] * 9, "Duration": [0, 0, 0, 0, 1, 0, 0, 0, 0], "ElectricalCharge": [0, 0, 0, 0, 1, 1, 0, 0, 0],
    "ElectricalCurrent": [0, 0, 0, 0, 0, 1, 0, 0, 0], "ElectricalPotential": [0, 0, 1, 2, -3, -1, 0, 0, 0],
    "ElectricalResistance": [0, 0, 1, 2, -3, -2, 0, 0, 0], "Energy": [0, 0, 1, 2, -2, 0, 0, 0, 0], "FlowMass": [0, 0, 1, 0, -1, 0, 0, 0, 0],
    "FlowVolume": [0, 0, 0, 3, -1, 0, 0, 0, 0], "Force": [0, 0, 1, 1, -2, 0, 0, 0, 0], "Frequency": [0, 0, 0, 0, -1, 0, 0, 0, 0],
    "Length": [0, 0, 0, 1, 0, 0, 0, 0, 0], "Mass": [0, 0, 1, 0, 0, 0, 0, 0, 0], "Momentum": [0, 0, 1, 1, -1, 0, 0, 0, 0],
    "Power": [0, 0, 1, 2, -3, 0, 0, 0, 0], "Pressure": [0, 0, 1, -1, -2, 0, 0, 0, 0], "SolidAngle": [0, 1, 0, 0, 0, 0, 0, 0, 0],
    "Speed": [0, 0, 0, 1, -1, 0, 0, 0, 0], "Temperature": [0, 0, 0, 0, 0, 0, 1, 0, 0], "Torque": [0, 0, 1, 2, -2, 0, 0, 0, 0],
    "Volume": [0, 0, 0, 3, 0, 0, 0, 0, 0], "AbsorbedDose": [0, 0, 0, 2, -2, 0, 0, 0, 0], "AmountOfSubstance": [0, 0, 0, 0, 0, 0, 0, 1, 0],
    "CatalyticActivity": [0, 0, 0, 0, -1, 0, 0, 1, 0], "ElectricalCapacitance": [0, 0, -1, -2, 4, 2, 0, 0, 0],
    "ElectricalConductance": [0, 0, -1, -2, 3, 2, 0, 0, 0], "ElectricalInductance": [0, 0, 1, 2, -2, -2, 0, 0, 0],
    "EquivalentDose": [0, 0, 0, 2, -2, 0, 0, 0, 0], "Illuminance": [0, 1, 0, -2, 0, 0, 0, 0, 1], "LuminousFlux": [0, 1, 0, 0, 0, 0, 0, 0, 1],
    "LuminousIntensity": [0, 0, 0, 0, 0, 0, 0, 0, 1], "MagneticFluxDensity": [0, 0, 1, 0, -2, -1, 0, 0, 0],
    "MagneticFlux": [0, 0, 1, 2, -2, -1, 0, 0, 0], "RadioActivity": [0, 0, 0, 0, -1, 0, 0, 0, 0],
    # (LinearDensity is the library's 'per metre' quantity, not kg/m: its declared signature is not judged against a definition)
}


def _classes():
    from pydsol.core import units
    cl = sorted(units.Quantity.__subclasses__(), key=lambda c: c.__name__)
    return cl


def _sigs():
    out = []
    exps = [-3, -2, -1, 1, 2, 3]
    for k in range(0, 4):
        for pos in itertools.combinations(range(9), k):
            for ev in itertools.product(exps, repeat=k):
                s = [0] * 9
                for p, e in zip(pos, ev):
                    s[p] = e
                out.append(s)
    return out


_SIGS = None
NSIG_CHUNK = 50


def _layout(tier):
    global _SIGS
    n = len(_classes())
    if _SIGS is None:
        _SIGS = _sigs()
    nsig = (len(_SIGS) + NSIG_CHUNK - 1) // NSIG_CHUNK
    nrnd = 4000 if tier == "quick" else 1200000
    return n, n * n, n, nsig, nrnd


def plan(tier):
    base_n = 41 * 41 + 41 + 390
    return {"cases": base_n + (4000 if tier == "quick" else 1200000), "shards": 16,
            "timeout": 600 if tier == "quick" else 3000, "min_nontrivial": 1500,
            "min": {"products_quotients": 15000, "refusals_demanded": 10000, "roundtrips": 100000}}


def EXHAUSTIVE(tier):
    return "all ordered pairs of quantity classes for * and /; all SI signatures with <=3 non-zero exponents in -3..3 in all 8 print formats"


def gen_case(rng, tier, i):
    n, npair, nsingle, nsig, nrnd = _layout(tier)
    if i < npair:
        return {"fam": "pair", "a": i // n, "b": i % n}
    i -= npair
    if i < nsingle:
        return {"fam": "single", "a": i}
    i -= nsingle
    if i < nsig:
        return {"fam": "sig", "chunk": i}
    sig = [rng.choice([-3, -2, -1, 0, 0, 0, 1, 2, 3]) for _ in range(9)]
    sig2 = [rng.choice([-3, -2, -1, 0, 0, 0, 0, 1, 2, 3]) for _ in range(9)]
    va = rng.choice([rng.uniform(-1e6, 1e6), rng.uniform(1e-9, 1e-3), float(rng.randint(1, 1000)), rng.randint(-50, 50) or 1])
    vb = rng.choice([rng.uniform(-1e6, 1e6), rng.uniform(1e-9, 1e-3), float(rng.randint(1, 1000)), rng.randint(-50, 50) or 1])
    return {"fam": "rnd", "sig": sig, "sig2": sig2, "va": va or 1.0, "vb": vb or 2.0, "a": rng.randrange(n), "b": rng.randrange(n)}


def _sig_of(x):
    from pydsol.core.units import Quantity, SI
    if isinstance(x, Quantity):
        return list(type(x).sisig())
    if isinstance(x, SI):
        return list(x.sisig())
    return None


def _mk_si(sig, v=1.0):
    """an SI value of signature `sig` built through the public API only (unit atoms, * and /)"""
    from pydsol.core.units import SI
    x = SI(v)
    for i, e in enumerate(sig):
        atom = SI(1.0, SI.SIUNITS[i])
        for _ in range(abs(e)):
            x = x * atom if e > 0 else x / atom
    return x


_LIVE = []      # results made during the case with what they were (value bits, signature, text): re-read at its end


def _still_the_same(ctx):
    for r, sihex, sig, text, what in _LIVE:
        ctx.count("results_re-read_at_the_end")
        try:
            ok = float(r.si).hex() == sihex and _sig_of(r) == sig and str(r) == text
        except Exception:
            ok = False
        if not ok:
            ctx.viol("earlier-result-changed-afterwards", {"operation": what, "was": [sihex, sig, text], "now": [float(r).hex(), _sig_of(r), str(r)]})
            break
    del _LIVE[:]


def _judge_binop(ctx, what, r, want_si, want_sig, info):
    from vlib.base import fx
    ctx.count("products_quotients")
    sig = _sig_of(r)
    if sig is None:
        ctx.viol(f"{what}:result-not-a-quantity", {**info, "result": repr(r), "type": type(r).__name__})
        return
    try:
        _LIVE.append((r, float(r.si).hex(), sig, str(r), what))
    except Exception as e:
        ctx.viol(f"{what}:result-not-printable:{type(e).__name__}", {**info, "exc": repr(e)})
    if sig != want_sig:
        ctx.viol(f"{what}:signature", {**info, "result_type": type(r).__name__, "got": sig, "want": want_sig})
    if fx(float(r.si)) != fx(float(want_si)):
        ctx.viol(f"{what}:si-value", {**info, "result_type": type(r).__name__, "got": fx(float(r.si)), "want": fx(float(want_si))})


def _units_of(cls):
    us = list(cls._units.keys())
    return [cls._baseunit, us[len(us) // 2], us[-1]]


def _must_refuse(ctx, what, fn, info):
    ctx.count("refusals_demanded")
    try:
        r = fn()
    except (ValueError, TypeError):
        return
    except Exception as e:
        ctx.viol(f"{what}:wrong-exception:{type(e).__name__}", {**info, "exc": repr(e)})
        return
    if r is NotImplemented:
        return
    ctx.viol(f"{what}:accepted", {**info, "result": repr(r)})


def run_case(case, ctx):
    try:
        return _run(case, ctx)
    finally:
        _still_the_same(ctx)


def _run(case, ctx):
    from pydsol.core.units import SI, Quantity
    from vlib.base import fx
    cl = _classes()
    fam = case["fam"]
    if fam == "pair":
        A, B = cl[case["a"]], cl[case["b"]]
        sa, sb = list(A.sisig()), list(B.sisig())
        named = False
        for (va, vb), ua, ub in zip(VALS, itertools.cycle(_units_of(A)), itertools.cycle(reversed(_units_of(B)))):
            a, b = A(va, ua), B(vb, ub)
            info = {"A": A.__name__, "B": B.__name__, "a": [va, ua], "b": [vb, ub]}
            try:
                r = a * b
                _judge_binop(ctx, "mul", r, float(a) * float(b), [x + y for x, y in zip(sa, sb)], info)
                named = named or isinstance(r, Quantity) or any(_sig_of(r) or [])
                r = a / b
                _judge_binop(ctx, "div", r, float(a) / float(b), [x - y for x, y in zip(sa, sb)], info)
                named = named or isinstance(r, Quantity) or any(_sig_of(r) or [])
            except Exception as e:
                ctx.viol(f"pair:raises:{type(e).__name__}", {**info, "exc": repr(e)})
            if A is not B:
                for opn, fn in (("add", lambda: a + b), ("sub", lambda: a - b), ("lt", lambda: a < b),
                                ("le", lambda: a <= b), ("gt", lambda: a > b), ("ge", lambda: a >= b)):
                    _must_refuse(ctx, f"mixed-{opn}", fn, info)
                # a zero of another type is still of another type (zero-valued quantities are falsy floats)
                bz, az = B(0.0, ub), A(-0.0, ua)
                for opn, fn in (("add-zero", lambda: a + bz), ("sub-zero", lambda: a - bz), ("zero-add", lambda: az + b), ("zero-sub", lambda: az - b),
                                ("lt-zero", lambda: a < bz), ("ge-zero", lambda: az >= b)):
                    _must_refuse(ctx, f"mixed-{opn}", fn, info)
        ctx.seen("result_kinds", f"{A.__name__}*{B.__name__}->{type(A(1.0) * B(1.0)).__name__}")
        if named and A is not B:
            ctx.nontrivial = True
        return
    if fam == "single":
        A = cl[case["a"]]
        sa = list(A.sisig())
        # the declared signature itself, against this check's own table of the SI definitions (order rad, sr, kg, m, s, A, K, mol, cd)
        ctx.count("declared_signatures_checked")
        if A.__name__ in SI_DEFINITIONS and sa != SI_DEFINITIONS[A.__name__]:
            ctx.viol("declared-signature-differs-from-the-SI-definition", {"class": A.__name__, "declared": sa, "SI": SI_DEFINITIONS[A.__name__]})
            return
        zero = [0] * 9
        for (va, vb), ua in zip(VALS, itertools.cycle(_units_of(A))):
            a, b = A(va, ua), A(vb, _units_of(A)[-1])
            info = {"A": A.__name__, "a": [va, ua], "b": vb}
            try:
                for k in (3, 2.5, -4.0):
                    _judge_binop(ctx, "scale-right", a * k, float(a) * k, sa, info)
                    _judge_binop(ctx, "scale-left", k * a, float(a) * k, sa, info)
                    _judge_binop(ctx, "scale-div", a / k, float(a) / k, sa, info)
                    _judge_binop(ctx, "number-div-q", k / a, k / float(a), [-x for x in sa], info)
                    for r in (a * k, k * a, a / k):
                        if type(r) is not A or r.unit != a.unit:
                            ctx.viol("scale:type-or-unit", {**info, "k": k, "got": [type(r).__name__, getattr(r, "unit", None)]})
                s = _mk_si([0, 0, 1, 1, -2, 0, 0, 0, 0], 3.0)
                ssig = [0, 0, 1, 1, -2, 0, 0, 0, 0]
                _judge_binop(ctx, "q*SI", a * s, float(a) * 3.0, [x + y for x, y in zip(sa, ssig)], info)
                _judge_binop(ctx, "q/SI", a / s, float(a) / 3.0, [x - y for x, y in zip(sa, ssig)], info)
                _judge_binop(ctx, "SI*q", s * a, 3.0 * float(a), [x + y for x, y in zip(sa, ssig)], info)
                _judge_binop(ctx, "SI/q", s / a, 3.0 / float(a), [y - x for x, y in zip(sa, ssig)], info)
                # same-type arithmetic acts on SI values and keeps the left operand's unit
                for opn, r, want in (("add", a + b, float(a) + float(b)), ("sub", a - b, float(a) - float(b)),
                                     ("neg", -a, -float(a)), ("abs", abs(a), abs(float(a)))):
                    ctx.count("same_type_ops")
                    if type(r) is not A or fx(float(r)) != fx(want) or r.unit != a.unit:
                        ctx.viol(f"same-type-{opn}", {**info, "got": [type(r).__name__, fx(float(r)), r.unit], "want": [A.__name__, fx(want), a.unit]})
                for opn, got, want in (("lt", a < b, float(a) < float(b)), ("le", a <= b, float(a) <= float(b)),
                                       ("gt", a > b, float(a) > float(b)), ("ge", a >= b, float(a) >= float(b)),
                                       ("eq", a == b, float(a) == float(b)), ("ne", a != b, float(a) != float(b)),
                                       ("eq-self", a == A(va, ua), True), ("le-self", a <= A(va, ua), True)):
                    ctx.count("same_type_ops")
                    if got is not want:
                        ctx.viol(f"same-type-{opn}", {**info, "got": got, "want": want})
                # non-finite SI values are values too: every comparison is the comparison of the SI values (false with a NaN)
                for sv in (math.nan, math.inf, -math.inf):
                    n_ = A(sv, ua)
                    for x, y in ((a, n_), (n_, a), (n_, n_)):
                        for opn, got, want in (("lt", x < y, float(x) < float(y)), ("le", x <= y, float(x) <= float(y)),
                                               ("gt", x > y, float(x) > float(y)), ("ge", x >= y, float(x) >= float(y)),
                                               ("eq", x == y, float(x) == float(y)), ("ne", x != y, float(x) != float(y))):
                            ctx.count("same_type_ops")
                            if got is not want:
                                ctx.viol(f"same-type-{opn}:non-finite", {**info, "x": fx(float(x)), "y": fx(float(y)), "got": got, "want": want})
                # the quotient of two equal values is the quotient of their SI values like any other: 0/0 is refused the way
                # float division refuses it, inf/inf and nan/nan are nan, x/x is exactly 1 only where float division says so
                for sv in (0.0, -0.0, math.inf, -math.inf, math.nan, va):
                    x, y = A(sv, ua), A(sv, ua)
                    ctx.count("equal_value_quotients")
                    try:
                        want_q = float(x) / float(y)
                    except ZeroDivisionError:
                        want_q = "ZeroDivisionError"
                    try:
                        got_q = fx(float(x / y))
                    except ZeroDivisionError:
                        got_q = "ZeroDivisionError"
                    if got_q != (want_q if isinstance(want_q, str) else fx(want_q)):
                        ctx.viol("same-type-div:equal-values", {**info, "x": fx(float(x)), "got": got_q, "want": want_q if isinstance(want_q, str) else fx(want_q)})
                        break
                # neighbouring floats are different values: a value, the next floats above it and the same value written in
                # another unit (its SI value may or may not round to the same float) compare exactly as their SI values do
                nbrs = [A(math.nextafter(float(a.displayvalue), math.inf), ua), A(float(a.displayvalue) * (1 + 2 ** -51), ua)]
                for u2 in list(_units_of(A))[:3]:
                    try:
                        nbrs.append(a.as_unit(u2))
                        nbrs.append(A(float(nbrs[-1].displayvalue), u2))
                    except Exception:
                        pass
                for y in nbrs:
                    for x_, y_ in ((a, y), (y, a)):
                        for opn, got, want in (("lt", x_ < y_, float(x_) < float(y_)), ("le", x_ <= y_, float(x_) <= float(y_)),
                                               ("gt", x_ > y_, float(x_) > float(y_)), ("ge", x_ >= y_, float(x_) >= float(y_)),
                                               ("eq", x_ == y_, float(x_) == float(y_)), ("ne", x_ != y_, float(x_) != float(y_))):
                            ctx.count("same_type_ops")
                            if got is not want:
                                ctx.viol(f"same-type-{opn}:neighbouring-values", {**info, "x": fx(float(x_)), "y": fx(float(y_)), "got": got, "want": want})
                # the SI form of the same quantity: addition/ordering across (quantity, SI) is refused too
                _must_refuse(ctx, "q+SI", lambda: a + s, info)
                _must_refuse(ctx, "q<SI", lambda: a < s, info)
                _must_refuse(ctx, "q+number", lambda: a + 1.0, info)
                _must_refuse(ctx, "number+q", lambda: 1.0 + a, info)
                _must_refuse(ctx, "number-q", lambda: 2 - a, info)
                _must_refuse(ctx, "q-number", lambda: a - 2, info)
                _must_refuse(ctx, "q<number", lambda: a < 1.0, info)
                for opn, fn in (("q+0", lambda: a + 0), ("q+0.0", lambda: a + 0.0), ("0+q", lambda: 0 + a), ("0.0-q", lambda: 0.0 - a), ("q-0", lambda: a - 0),
                                ("q+False", lambda: a + False), ("q+SI0", lambda: a + _mk_si(ssig, 0.0))):
                    _must_refuse(ctx, opn, fn, info)
                # zero is a value like any other (a zero quantity is a falsy float)
                z = A(0.0, ua)
                for opn, r, want in (("add-zero", a + z, float(a) + 0.0), ("zero-add", z + a, 0.0 + float(a)), ("sub-zero", a - z, float(a) - 0.0),
                                     ("zero-sub", z - a, 0.0 - float(a)), ("zero-scale", z * 3.0, 0.0), ("neg-zero", -z, -0.0), ("abs-zero", abs(z), 0.0)):
                    ctx.count("same_type_ops")
                    if type(r) is not A or fx(float(r)) != fx(want):
                        ctx.viol(f"same-type-{opn}", {**info, "got": [type(r).__name__, fx(float(r))], "want": fx(want)})
                if (z < a) is not (0.0 < float(a)) or (z == A(0.0)) is not True or (z != a) is not (float(a) != 0.0):
                    ctx.viol("same-type-zero-compare", info)
                _judge_binop(ctx, "zero*q", z * A(2.0), 0.0, [x + x for x in sa] if type(z * A(2.0)).__name__ == "SI" else list(_sig_of(z * A(2.0))), info)
                asi = a.asSI()
                if list(asi.sisig()) != sa or fx(float(asi)) != fx(float(a)):
                    ctx.viol("asSI", {**info, "got": [list(asi.sisig()), fx(float(asi))]})
                back = asi.as_quantity(A)
                if type(back) is not A or fx(float(back)) != fx(float(a)):
                    ctx.viol("asSI-as_quantity-roundtrip", {**info, "got": [type(back).__name__, fx(float(back))]})
                # quantities derived from one whose SI view was already asked for have an SI view of their own
                for opn, dq in (("scaled", a * 2.0), ("negated", -a), ("doubled", a + a), ("halved", a / 2.0), ("abs", abs(-a))):
                    ctx.count("same_type_ops")
                    dsi = dq.asSI()
                    if fx(float(dsi)) != fx(float(dq)) or list(dsi.sisig()) != sa:
                        ctx.viol(f"asSI-of-a-derived-quantity:{opn}", {**info, "got": [list(dsi.sisig()), fx(float(dsi))], "want": fx(float(dq))})
            except Exception as e:
                ctx.viol(f"single:raises:{type(e).__name__}", {**info, "exc": repr(e)})
        # printed SI unit of the class parses back to the class signature (all 8 formats)
        for div, hat, dot in itertools.product((True, False), ("", "^"), ("", ".")):
            ctx.count("roundtrips")
            try:
                u = A.siunit(div, hat, dot)
                # the class-level printer writes an empty numerator as "1" ("1/s"); the documented parser
                # grammar has no such form, so the display numerator is dropped before parsing (not judged)
                if u.startswith("1/"):
                    u = u[1:]
                got = SI.str_to_sisig(u) if u not in ("1", "") else zero
                if list(got) != sa:
                    ctx.viol("class-siunit-roundtrip", {"A": A.__name__, "fmt": [div, hat, dot], "unit": u, "got": list(got), "want": sa})
            except Exception as e:
                ctx.viol(f"class-siunit-roundtrip:raises:{type(e).__name__}", {"A": A.__name__, "fmt": [div, hat, dot], "exc": repr(e)})
        ctx.nontrivial = True
        return
    if fam == "sig":
        sigs = _SIGS or _sigs()
        chunk = sigs[case["chunk"] * NSIG_CHUNK:(case["chunk"] + 1) * NSIG_CHUNK]
        for sig in chunk:
            _sig_roundtrip(ctx, sig, cl, 2.5)
        ctx.nontrivial = True
        return
    # random family
    sig, sig2, va, vb = case["sig"], case["sig2"], case["va"], case["vb"]
    _sig_roundtrip(ctx, sig, cl, float(va))
    x, y = _mk_si(sig, float(va)), _mk_si(sig2, float(vb))
    info = {"sig": sig, "sig2": sig2, "va": va, "vb": vb}
    _judge_binop(ctx, "SI*SI", x * y, float(va) * float(vb), [p + q for p, q in zip(sig, sig2)], info)
    _judge_binop(ctx, "SI/SI", x / y, float(va) / float(vb), [p - q for p, q in zip(sig, sig2)], info)
    # longer chains: exponents add up beyond one digit (m10, s-12); such values still scale, negate, add and subtract
    try:
        p4 = x * y * x * y
        s4 = [2 * (p + q) for p, q in zip(sig, sig2)]
        v4 = float(va) * float(vb) * float(va) * float(vb)
        _judge_binop(ctx, "SI-chain", p4, v4, s4, info)
        if math.isfinite(v4):
            for opn, r, want in (("scale", p4 * 2.0, v4 * 2.0), ("scale-left", 0.5 * p4, 0.5 * v4), ("neg", -p4, -v4), ("add", p4 + p4, v4 + v4),
                                 ("sub", p4 - p4, v4 - v4), ("div-back", p4 / x, v4 / float(va))):
                ctx.count("chained_SI_operations")
                wsig = s4 if opn != "div-back" else [a_ - b_ for a_, b_ in zip(s4, sig)]
                if list(r.sisig()) != wsig or fx(float(r)) != fx(want):
                    ctx.viol(f"SI-chain-{opn}", {**info, "got": [list(r.sisig()), fx(float(r))], "want": [wsig, fx(want)]})
                    break
    except Exception as e:
        ctx.viol(f"SI-chain:raises:{type(e).__name__}", {**info, "exc": repr(e)[:200]})
    A = cl[case["a"]]
    a = A(va if type(va) in (int, float) else float(va))
    _judge_binop(ctx, "q*SI", a * y, float(a) * float(vb), [p + q for p, q in zip(A.sisig(), sig2)], info)
    _judge_binop(ctx, "SI/q", y / a, float(vb) / float(a), [q - p for p, q in zip(A.sisig(), sig2)], info)
    if sig != sig2:
        for opn, fn in (("add", lambda: x + y), ("sub", lambda: x - y), ("lt", lambda: x < y), ("le", lambda: x <= y),
                        ("gt", lambda: x > y), ("ge", lambda: x >= y)):
            _must_refuse(ctx, f"SI-mixed-{opn}", fn, info)
    z = _mk_si(sig, float(vb))
    for opn, r, want in (("add", x + z, float(va) + float(vb)), ("sub", x - z, float(va) - float(vb))):
        if list(r.sisig()) != sig or fx(float(r)) != fx(want):
            ctx.viol(f"SI-same-{opn}", {**info, "got": [list(r.sisig()), fx(float(r))], "want": [sig, fx(want)]})
    fa_, fb_ = float(va), float(vb)
    for opn, got, want in (("lt", x < z, fa_ < fb_), ("le", x <= z, fa_ <= fb_), ("gt", x > z, fa_ > fb_), ("ge", x >= z, fa_ >= fb_),
                           ("eq", x == z, fa_ == fb_), ("ne", x != z, fa_ != fb_), ("eq-self", x == _mk_si(sig, fa_), True),
                           ("le-self", x <= _mk_si(sig, fa_), True), ("ne-other-signature", x != y, True) if sig != sig2 else ("eq-self", True, True)):
        ctx.count("SI_same_signature_comparisons")
        if got is not want:
            ctx.viol("SI-same-order", {**info, "op": opn, "got": got, "want": want})
    for opn, r, want in (("neg", -x, -fa_), ("abs", abs(x), abs(fa_)), ("scale", x * 2.5, fa_ * 2.5), ("scale-left", 2.5 * x, 2.5 * fa_),
                         ("scale-div", x / 4.0, fa_ / 4.0)):
        if list(r.sisig()) != sig or fx(float(r)) != fx(want):
            ctx.viol(f"SI-same-{opn}", {**info, "got": [list(r.sisig()), fx(float(r))], "want": [sig, fx(want)]})
    ctx.nontrivial = any(sig) and any(sig2)


def _sig_roundtrip(ctx, sig, cl, v):
    from pydsol.core.units import SI
    from vlib.base import fx
    try:
        x = _mk_si(sig, v)
    except Exception as e:
        ctx.viol(f"SI-compose:raises:{type(e).__name__}", {"sig": sig, "exc": repr(e)})
        return
    if list(x.sisig()) != list(sig):
        ctx.viol("SI-compose-signature", {"sig": sig, "got": list(x.sisig())})
        return
    for div, hat, dot in itertools.product((True, False), ("", "^"), ("", ".")):
        ctx.count("roundtrips")
        try:
            u = x.siunit(div, hat, dot)
            if not any(sig) and u == "":
                continue
            got = SI.str_to_sisig(u)
            y = SI(v, u)
        except Exception as e:
            ctx.viol(f"unit-string-roundtrip:raises:{type(e).__name__}", {"sig": sig, "fmt": [div, hat, dot], "exc": repr(e)})
            continue
        if list(got) != list(sig) or list(y.sisig()) != list(sig) or fx(float(y)) != fx(v):
            ctx.viol("unit-string-roundtrip", {"sig": sig, "fmt": [div, hat, dot], "unit": u, "parsed": list(got)})
    # as_quantity succeeds exactly when the signatures match
    for Q in cl:
        ctx.count("as_quantity_checks")
        match = list(Q.sisig()) == list(sig)
        try:
            q = x.as_quantity(Q)
            ok = True
        except ValueError:
            ok = False
        except Exception as e:
            ctx.viol(f"as_quantity:wrong-exception:{type(e).__name__}", {"sig": sig, "Q": Q.__name__})
            continue
        if ok != match:
            ctx.viol("as_quantity:" + ("accepted-mismatch" if ok else "refused-match"), {"sig": sig, "Q": Q.__name__, "Qsig": list(Q.sisig())})
        elif ok and (type(q) is not Q or fx(float(q)) != fx(float(x))):
            ctx.viol("as_quantity:value", {"sig": sig, "Q": Q.__name__, "got": [type(q).__name__, fx(float(q))]})
