"""
C13 - seed updates depend only on stream name, seed and replication number.
Monitor: cross-process differential runner.  The same generated configurations (named streams, original
seeds, seed tables, replication number) are evaluated in child interpreters started with different
PYTHONHASHSEED values; children print seed and first draws per stream for the base listing order, a permuted
order, each stream alone, and after unrelated prior use of the streams; the parent compares everything.
Invalid replication numbers are tried in-process against an untouched twin.
"""
import json
import os
import subprocess

ID = "C13"
LEVEL = "exploration"
TECHNIQUE = "runtime monitor: cross-process differential observation (PYTHONHASHSEED varied) of seeds and first draws after update_seeds"
RULE = ("each case is a batch of 25 generated configurations (1-6 streams; names incl. 'default', empty, unicode, "
        "long; seeds incl. 0/negative/huge; r in 0..7; SimpleStreamUpdater or StreamSeedUpdater with complete / "
        "partial / short tables; update_seeds or update_seed one by one; variants: permuted listing, prior stream use, updater reuse, each stream alone, seed table completed after the updater was built, table built through a StreamSeedInformation next to a decoy one, updates after updates the same updater refused) evaluated by 5 child interpreters with "
        "PYTHONHASHSEED in {0, 1, 4242, random, random}; plus in-process refusal probes (r negative / float / str / "
        "None / beyond the list); non-trivial = configuration with >= 2 streams, r >= 1 and a non-empty name; distinct "
        "= canonical configuration hash")
RULE += "; variant 'shipped': streams that served an earlier replication, were copied (pickle / deepcopy) and are updated as copies"
ASSUMPTIONS = ["a seed-table entry means: seed of replication r is table[name][r] (documented: 'indexed on the replication number')",
               "the default fallback updater is SimpleStreamUpdater (documented); bool replication numbers are not judged"]

NAMES = ["default", "", "arrivals", "service", "Ünïcode-ström", "a", "b", "x" * 40, "Default", "stream 1", "1", "nämeΩ", "Aa", "BB", "AaAa", "BBBB", "AaBB"]      # (the last five: names whose 31-polynomial hashes collide pairwise / triple-wise)
SEEDS = [0, 1, 10, 101, -1, -2 ** 40, 2 ** 64 + 3, 999999937]
BATCH = 25


def plan(tier):
    n = 64 if tier == "quick" else 4000
    return {"cases": n, "shards": 16, "timeout": 600 if tier == "quick" else 3000, "min_nontrivial": 32,
            "min": {"cross_process_comparisons": 2000, "child_interpreters": 50, "refusal_probes": 200}}


def _cfg(rng):
    k = rng.randint(1, 6)
    names = rng.sample(NAMES, k)
    streams = {n: rng.choice(SEEDS) if rng.random() < 0.7 else rng.randint(-10 ** 9, 10 ** 9) for n in names}
    r = rng.choice([0, 1, 2, 3, 3, 5, 7])
    upd = rng.choice(["simple", "table", "table"])
    cfg = {"streams": streams, "r": r, "updater": upd, "perm": rng.sample(names, k), "one_by_one": rng.random() < 0.3}
    if upd == "table":
        mode = rng.choice(["complete", "partial", "short", "empty"])
        table = {}
        for n in names:
            if mode == "partial" and rng.random() < 0.5:
                continue
            if mode == "empty":
                continue
            ln = rng.randint(8, 10) if mode != "short" else rng.randint(0, 8)
            table[n] = [rng.randint(-10 ** 6, 10 ** 6) for _ in range(ln)]
        if rng.random() < 0.3:
            table["not-a-stream"] = [1, 2, 3, 4, 5, 6, 7, 8]
        cfg["table"] = table
    return cfg


def gen_case(rng, tier, i):
    return {"configs": [_cfg(rng) for _ in range(BATCH)]}


def _child(path, hashseed):
    from vlib import base
    env = base.child_env({"PYTHONHASHSEED": str(hashseed)})
    r = subprocess.run([base.PY, "-B", "-m", "vlib.seedchild", path], env=env, capture_output=True, text=True, timeout=300)
    if r.returncode != 0:
        raise RuntimeError("seed child failed: " + r.stderr[-800:])
    return json.loads(r.stdout)


def run_case(case, ctx):
    from vlib import base
    tmpd = os.path.join(base.ROOT, ".tmp")
    os.makedirs(tmpd, exist_ok=True)
    path = os.path.join(tmpd, f"c13-{os.getpid()}-{base.chash(case)}.json")
    json.dump(case["configs"], open(path, "w"))
    rnd = base.rng_for("c13", base.chash(case))
    hashseeds = [0, 1, 4242, rnd.randint(2, 2 ** 32 - 1), rnd.randint(2, 2 ** 32 - 1)]
    try:
        outs = [_child(path, h) for h in hashseeds]
    finally:
        try:
            os.unlink(path)
        except OSError:
            pass
    ctx.count("child_interpreters", len(outs))
    ref = outs[0]
    for ci, cfg in enumerate(case["configs"]):
        names = list(cfg["streams"])
        r0 = ref[ci]
        info = {"config": cfg}
        # (a) every interpreter agrees
        for h, o in zip(hashseeds[1:], outs[1:]):
            ctx.count("cross_process_comparisons")
            strip = lambda d: {k: v for k, v in d.items() if k != "fallback"}   # the fallback oracle is judged where it is used
            if strip(o[ci]) != strip(r0):
                diff = next((n for n in names if o[ci]["base"].get(n) != r0["base"].get(n)), None)
                ctx.viol("differs-between-interpreters", {**info, "hashseeds": [hashseeds[0], h], "stream": diff,
                                                          "a": r0["base"].get(diff), "b": o[ci]["base"].get(diff)})
                return
        for o, h in zip(outs, hashseeds):
            r = o[ci]
            err = r["base"].get("__error__")
            # (b) listing order, (c) presence of other streams, (g) prior use of the stream
            if (r["late"].get("__error__") is None) != (err is None) and not (err is not None and not cfg.get("one_by_one")):
                ctx.viol("depends-on-when-the-seed-table-was-filled", {**info, "base_error": err, "late_error": r["late"].get("__error__"), "hashseed": h})
                return
            if (r["info"].get("__error__") is None) != (err is None) and not (err is not None and not cfg.get("one_by_one")):
                ctx.viol("depends-on-another-seed-information-object", {**info, "base_error": err, "info_error": r["info"].get("__error__"), "hashseed": h})
                return
            if (r["ddict"].get("__error__") is None) != (err is None) and not (err is not None and not cfg.get("one_by_one")):
                ctx.viol("depends-on-the-dict-type-of-the-seed-table", {**info, "base_error": err, "defaultdict_error": r["ddict"].get("__error__"), "hashseed": h})
                return
            for variant in ("perm", "hist", "reuse", "used", "late", "info", "ddict", "shipped", "reconf"):
                ctx.count("in_process_metamorphic_comparisons")
                if err is None and r[variant].get("__error__") is None:
                    for n in names:
                        if r[variant][n] != r["base"][n]:
                            ctx.viol("depends-on-" + {"perm": "listing-order", "hist": "prior-stream-use",
                                                      "reuse": "what-the-updater-served-before", "used": "prior-stream-use", "shipped": "the-stream-having-been-copied", "reconf": "what-the-seed-table-held-before",
                                                      "late": "when-the-seed-table-was-filled", "info": "another-seed-information-object",
                                                      "ddict": "the-dict-type-of-the-seed-table"}[variant],
                                     {**info, "stream": n, "base": r["base"][n], variant: r[variant][n], "hashseed": h})
                            return
            if cfg["updater"] == "table":
                # (h) updates the same updater refused earlier leave nothing behind
                ctx.count("updates_after_refused_updates")
                rr = r["refused"]
                if (rr.get("__error__") is None) != (err is None) and not (err is not None and not cfg.get("one_by_one")):
                    ctx.viol("depends-on-updates-refused-before", {**info, "base_error": err, "error_after_refusals": rr.get("__error__"), "hashseed": h})
                    return
                if err is None and rr.get("__error__") is None:
                    for n in names:
                        if rr[n] != r["base"][n]:
                            ctx.viol("depends-on-updates-refused-before", {**info, "stream": n, "base": r["base"][n], "after_refusals": rr[n], "hashseed": h})
                            return
            if err is None:
                for n in names:
                    if r["alone"][n] != r["base"][n]:
                        ctx.viol("depends-on-other-streams", {**info, "stream": n, "base": r["base"][n], "alone": r["alone"][n]})
                        return
            # (f) a custom fallback updater installed with set_fallback_stream_updater serves the unlisted streams
            if cfg["updater"] == "table" and err is None and r["custom"].get("__error__") is None:
                ctx.count("custom_fallback_checks")
                if r["custom"].get("__fallback_getter_ok__") is not True:
                    ctx.viol("fallback-getter-does-not-return-the-installed-updater", {**info, "hashseed": h})
                    return
                for n in names:
                    want_seed = cfg["table"][n][cfg["r"]] if n in cfg["table"] else 7000 + 13 * len(n) + cfg["r"]
                    if r["custom"][n][0] != want_seed:
                        ctx.viol("unlisted-stream-not-served-by-the-installed-fallback" if n not in cfg["table"] else "listed-stream-not-seeded-from-table",
                                 {**info, "stream": n, "got": r["custom"][n][0], "want": want_seed, "hashseed": h})
                        return
            # (d)/(e) table semantics
            if cfg["updater"] == "table":
                table = cfg["table"]
                short = [n for n in names if n in table and cfg["r"] >= len(table[n])]
                if err is not None and not short:
                    ctx.viol(f"update-raises:{err}", {**info, "hashseed": h})
                    return
                if err is None and short:
                    ctx.viol("replication-beyond-seed-list-accepted", {**info, "streams": short})
                    return
                if err is None:
                    for n in names:
                        ctx.count("table_semantics_checks")
                        if n in table:
                            if r["base"][n][0] != table[n][cfg["r"]]:
                                ctx.viol("listed-stream-not-seeded-from-table", {**info, "stream": n, "got": r["base"][n][0]})
                                return
                        elif r["base"][n] != r["fallback"][n]:
                            ctx.viol("unlisted-stream-not-served-by-fallback", {**info, "stream": n, "got": r["base"][n],
                                                                                 "fallback": r["fallback"][n]})
                            return
                # a stream updated alone gets its own seed whatever the lists of the streams that are not being updated look like
                for n in names:
                    if n in table and cfg["r"] < len(table[n]):
                        ctx.count("table_semantics_checks")
                        if r["alone"][n] is None or r["alone"][n][0] != table[n][cfg["r"]]:
                            ctx.viol("depends-on-the-seed-lists-of-streams-not-being-updated", {**info, "stream": n, "got": r["alone"][n] and r["alone"][n][0],
                                                                                              "want": table[n][cfg["r"]], "short_lists_of": short})
                            return
                if err is not None and short and not cfg.get("one_by_one"):
                    pass    # which streams were already updated before the refusal depends on listing order: not judged
            elif err is not None:
                ctx.viol(f"update-raises:{err}", {**info, "hashseed": h})
                return
        if len(names) >= 2 and cfg["r"] >= 1 and any(names):
            ctx.nontrivial = True
        ctx.seen("updater_modes", cfg["updater"] + (":" + ("listed" if all(n in cfg.get("table", {}) for n in names) else "unlisted") if cfg["updater"] == "table" else ""))
    # (f) refusals, in-process, against an untouched twin
    _refusals(case, ctx)


def _refusals(case, ctx):
    from pydsol.core.streams import MersenneTwister, SimpleStreamUpdater, StreamSeedUpdater
    for cfg in case["configs"][:8]:
        name = next(iter(cfg["streams"]))
        seed = cfg["streams"][name]
        for upk in ("simple", "table"):
            up = SimpleStreamUpdater() if upk == "simple" else StreamSeedUpdater({name: [5, 6, 7]})
            bads = [-1, -5, 2.0, "1", None] + ([3, 10] if upk == "table" else [])
            for bad in bads:
                for via in ("update_seed", "update_seeds"):
                    s, twin = MersenneTwister(seed), MersenneTwister(seed)
                    s.next_float(); twin.next_float()
                    ctx.count("refusal_probes")
                    try:
                        if via == "update_seed":
                            up.update_seed(name, s, bad)
                        else:
                            up.update_seeds({name: s}, bad)
                        ctx.viol(f"invalid-replication-accepted:{upk}:{type(bad).__name__}:{'neg' if isinstance(bad, int) and bad < 0 else 'x'}",
                                 {"name": name, "seed": seed, "r": repr(bad), "via": via})
                        return
                    except Exception:
                        pass
                    if s.seed() != twin.seed() or s.next_float().hex() != twin.next_float().hex():
                        ctx.viol("refused-update-changed-stream", {"name": name, "seed": seed, "r": repr(bad), "via": via})
                        return
