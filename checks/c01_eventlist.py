"""
C01 - the event list is a faithful priority queue.
Monitor: call-boundary recorder on the real EventListHeap stepped in lock-step with a sorted-set reference
model; after every operation the history so far is replayed through the public API into a fresh list and
fully drained; all six comparison operators of every ordered event pair are compared with the key order.
"""
import itertools
import math

ID = "C01"
LEVEL = "exploration"
TECHNIQUE = "runtime monitor: lock-step reference model (sorted set) over generated + bounded-exhaustive operation histories"
RULE = ("cases i < N_exh enumerate ALL operation histories of length <= L over 4 events (2 times, prios 5/5/9/5) "
        "with alphabet add(k)/remove(k)/pop/clear; the rest are seeded random histories of 5-60 ops over 3-14 "
        "events with 1-4 distinct times, int/float/mixed/Duration(mixed units)/huge-int (> 2^53) time types; non-trivial = at least "
        "one successful removal of a non-minimum (interior) event followed by >= 2 pop_first; distinct = distinct "
        "canonical (events, ops) hash; the first 8 (quick) / 63 (thorough) random cases put all events at one instant and create 300 .. 2^20 (thorough: 2^24) other events between the first and the second half of them; the next 24 (600) cases hold 130-600 events pending at once and shrink / grow the list several times across sizes 0..129")
ASSUMPTIONS = ["an event is never added while it is already pending (the statement speaks of a set)",
               "times within one list are mutually comparable (no Duration/float mixes)"]

EXH_EVENTS = [(2, 5), (1, 5), (1, 9), (2, 5)]
ALPHA = [("add", 0), ("add", 1), ("add", 2), ("add", 3), ("remove", 0), ("remove", 1), ("remove", 2),
         ("remove", 3), ("pop",), ("clear",)]


GAPS = {"quick": [2 ** 20 + 77, 2 ** 16 + 5, 2 ** 16 + 5, 70000, 5000, 5000, 1025, 300],
        "thorough": [2 ** 24 + 9, 2 ** 22 + 3, 2 ** 22 + 3] + [2 ** 20 + 77] * 8 + [2 ** 21 + 1] * 4 + [2 ** 16 + 5] * 16 + [5000] * 16 + [1025] * 16}


def _exh_count(L):
    return sum(len(ALPHA) ** k for k in range(1, L + 1))


def plan(tier):
    if tier == "quick":
        return {"cases": _exh_count(5) + 40000, "shards": 16, "timeout": 300, "min_nontrivial": 200,
                "min": {"oracle_comparisons": 100000, "drain_replays": 20000}}
    return {"cases": _exh_count(6) + 1500000, "shards": 16, "timeout": 5400, "min_nontrivial": 5000,
            "min": {"oracle_comparisons": 1000000}}


def EXHAUSTIVE(tier):
    L = 5 if tier == "quick" else 6
    return f"all {_exh_count(L)} histories of length <= {L} over the 10-letter alphabet on 4 fixed events"


def gen_case(rng, tier, i):
    L = 5 if tier == "quick" else 6
    nexh = _exh_count(L)
    if i < nexh:
        k = 1
        j = i
        while j >= len(ALPHA) ** k:
            j -= len(ALPHA) ** k
            k += 1
        ops = []
        for _ in range(k):
            ops.append(list(ALPHA[j % len(ALPHA)]))
            j //= len(ALPHA)
        return {"kind": "int", "events": [list(e) for e in EXH_EVENTS], "ops": ops, "fam": "exh"}
    nbig = 24 if tier == "quick" else 600
    if i - nexh - len(GAPS[tier]) in range(nbig):
        # many pending events at once (hundreds), growing and shrinking several times: thresholds on the size of the list
        nev = rng.choice([130, 140, 200, 300, 520, 600])
        times = rng.sample(range(0, 40), rng.randint(2, 12))
        events = [[rng.choice(times), rng.choice([1, 5, 5, 10, 5])] for _ in range(nev)]
        order = list(range(nev))
        rng.shuffle(order)
        ops = [["add", k] for k in order]
        present = set(order)
        for _ in range(rng.randint(2, 4)):
            # shrink below a random size by pops and interior removes, then grow again
            target = rng.choice([0, 5, 60, 100, 127, 128, 129])
            while len(present) > target:
                if rng.random() < 0.7:
                    ops.append(["pop"])
                    present.discard(min(present, key=lambda k: (events[k][0], -events[k][1], k)))
                else:
                    k = rng.choice(sorted(present))
                    ops.append(["remove", k])
                    present.discard(k)
            back = [k for k in order if k not in present]
            rng.shuffle(back)
            for k in back[:rng.randint(1, len(back))]:
                ops.append(["add", k])
                present.add(k)
        return {"kind": "int", "events": events, "ops": ops, "fam": "big"}
    kind = rng.choice(["int", "float", "mixed", "duration", "float", "int", "bigint"])
    nev = rng.randint(3, 14)
    ntimes = rng.randint(1, 4)
    if kind == "bigint":
        # integer times beyond 2**53 (e.g. nanosecond time stamps): neighbours collapse when converted to float
        b = rng.choice([2 ** 53, 2 ** 60, 17 * 10 ** 17])
        times = [b + k for k in rng.sample(range(0, 6), ntimes)]
    elif kind == "int":
        times = rng.sample(range(0, 30), ntimes)
    elif kind == "float":
        times = [rng.choice([0.0, 0.5, 1.0, 1.5, 2.25, 1e-9, 1e9, 0.1 + 0.2, 0.3, -0.0, math.inf, -math.inf, 1e308, 5e-324])
                 for _ in range(ntimes)]      # infinities are floats too ('never' / 'before everything')
    elif kind == "mixed":
        times = [rng.choice([1, 1.0, 2, 2.5, 3, 3.0, 0]) for _ in range(ntimes)]
    else:
        times = [rng.choice([[1, "min"], [60, "s"], [0.5, "h"], [30, "min"], [1800, "s"], [2, "s"], [2000, "ms"],
                             [0, "s"], [1, "day"], [0.1 + 0.2, "s"], [0.3, "s"], [300, "ms"], [0.005, "min"],
                             [1800.0000000000002, "s"]]) for _ in range(ntimes)]      # incl. times one ulp apart
    prios = rng.choice([[1, 5, 5, 10, 5]] * 5 + [[1, 5, 0, 10, -2, 11, 0]] * 3 + [[1000, 1000, 300, -50, -50, 7, 1000]] * 2)     # any int is a priority: zero, negatives and values beyond the interpreter's shared small ints included
    events = [[rng.choice(times), rng.choice(prios)] for _ in range(nev)]
    nops = rng.randint(5, 60)
    ops = []
    present = set()
    for _ in range(nops):
        r = rng.random()
        absent = [k for k in range(nev) if k not in present]
        if r < 0.38 and absent:
            k = rng.choice(absent)
            ops.append(["add", k])
            present.add(k)
        elif r < 0.60:
            k = rng.choice(sorted(present)) if present and rng.random() < 0.85 else rng.randrange(nev)
            ops.append(["remove", k])
            present.discard(k)
        elif r < 0.80:
            ops.append(["pop"])
            if present:
                present.discard(min(present, key=lambda k: (_num(kind, events[k][0]), -events[k][1], k)))
        elif r < 0.86:
            ops.append(["peek"])
        elif r < 0.92:
            ops.append(["contains", rng.randrange(nev)])
        elif r < 0.95:
            ops.append(["size"])
        elif r < 0.975:
            ops.append(["empty"])
        else:
            ops.append(["clear"])
            present = set()
    case = {"kind": kind, "events": events, "ops": ops, "fam": "rnd"}
    gaps = GAPS[tier]
    if i - nexh < len(gaps):
        # a long-lived process: the pending events were created far apart (many other events were created in between, the
        # creation counter is process-wide); all of them at one instant, so that priority and creation order alone decide
        for e in events:
            e[0] = events[0][0]
            e[1] = rng.choice([4, 5, 5, 6])       # neighbouring priorities
        events[0][1], events[-1][1] = 5, 6       # (an early event and a late one of the next higher priority)
        case["gap"] = [nev // 2, gaps[i - nexh]]
        order = list(range(nev))
        rng.shuffle(order)
        case["ops"] = [["add", k] for k in order] + [["peek"], ["pop"], ["pop"]] + ops
    return case


def _num(kind, t):
    return t if kind in ("int", "bigint", "float", "mixed") else float(_mk_time(kind, t))


class _T:
    def m(self):
        pass


_SUB = {}


def _subclass(base, name):
    if name not in _SUB:
        _SUB[name] = type("ModelEvent" + name, (base,), {})
    return _SUB[name]


def _mk_time(kind, t):
    if kind == "duration":
        from pydsol.core.units import Duration
        return Duration(t[0], t[1])
    return t


def run_case(case, ctx):
    from pydsol.core.eventlist import EventListHeap
    from pydsol.core.simevent import SimEvent
    tgt = _T()
    # every third / fifth event is an instance of a model-defined SimEvent subclass (ids must stay unique and in
    # creation order across classes)
    classes = [SimEvent, _subclass(SimEvent, "A"), SimEvent, SimEvent, _subclass(SimEvent, "B")] if case["fam"] == "rnd" else [SimEvent]
    evs = []
    for k, (t, p) in enumerate(case["events"]):
        if case.get("gap") and k == case["gap"][0]:
            for _ in range(case["gap"][1]):
                SimEvent(0.0, tgt, "m")
            ctx.count("events_created_in_between_(creation_gaps)", case["gap"][1])
            ctx.seen("creation_gaps", str(case["gap"][1]))
        # (int(str(p)): every event gets an int object of its own - equal priorities are equal values, not one shared object)
        evs.append(classes[k % len(classes)](_mk_time(case["kind"], t), tgt, "m", int(str(p))))
    ids = [e.id for e in evs]
    if len(set(ids)) != len(ids) or ids != sorted(ids):
        ctx.viol("event-ids-not-unique-or-not-in-creation-order", {"ids": ids})
        return
    # an event reports the time and the priority it was created with
    for e, (t, p) in zip(evs, case["events"]):
        if e.priority != p or type(e.priority) is not type(p):
            ctx.viol("event-reports-another-priority-than-it-was-created-with", {"created_with": p, "reports": e.priority})
            return
    # exact keys: Python compares int with float exactly; a Duration orders by its SI value.  The priority is the one the
    # event was created with (not what it reports)
    key = {k: ((e.time if type(e.time) in (int, float) else float(e.time)), -case["events"][k][1], k) for k, e in enumerate(evs)}
    idx = {id(e): k for k, e in enumerate(evs)}
    seq = [len(evs)]
    real = EventListHeap()
    model = set()
    hist = []
    interior_removed = False
    pops_after = 0

    stop = [False]

    def bad(what, opi, **kw):
        stop[0] = True
        ctx.viol(f"{what}", {"op_index": opi, "op": case["ops"][opi] if opi < len(case["ops"]) else "final", **kw})

    def cmp(what, opi, got, want):
        ctx.count("oracle_comparisons")
        if got is not want and got != want:
            bad(what, opi, got=repr(got), want=repr(want))
            return False
        return True

    def drain_replay(opi):
        fresh = EventListHeap()
        for op in hist:
            if op[0] == "add":
                fresh.add(evs[op[1]])
            elif op[0] == "remove":
                fresh.remove(evs[op[1]])
            elif op[0] == "pop":
                fresh.pop_first()
            elif op[0] == "clear":
                fresh.clear()
        out = []
        guard = len(evs) + 2
        while not fresh.is_empty() and guard > 0:
            out.append(idx.get(id(fresh.pop_first()), -1))
            guard -= 1
        want = sorted(model, key=lambda k: key[k])
        ctx.count("drain_replays")
        if out != want:
            bad("drain-order", opi, got=out, want=want)

    for opi, op in enumerate(case["ops"]):
        name = op[0]
        if name == "add":
            k = op[1]
            if k in model:      # would be a duplicate: ask membership instead
                cmp("contains", opi, real.contains(evs[k]), True)
                continue
            real.add(evs[k])
            model.add(k)
            hist.append(("add", k))
        elif name == "remove":
            k = op[1]
            want = k in model
            if want and model and min(model, key=lambda q: key[q]) != k:
                interior_removed = True
                pops_after = 0
            got = real.remove(evs[k])
            cmp("remove-result", opi, got, want)
            model.discard(k)
            hist.append(("remove", k))
        elif name == "pop":
            want = min(model, key=lambda q: key[q]) if model else None
            got = real.pop_first()
            if want is None:
                cmp("pop-empty", opi, got, None)
            else:
                cmp("pop-order", opi, idx.get(id(got), -1), want)
                model.discard(want)
                pops_after += 1
            hist.append(("pop",))
        elif name == "peek":
            want = min(model, key=lambda q: key[q]) if model else None
            got = real.peek_first()
            if want is None:
                cmp("peek-empty", opi, got, None)
            else:
                cmp("peek-order", opi, idx.get(id(got), -1), want)
        elif name == "contains":
            cmp("contains", opi, real.contains(evs[op[1]]), op[1] in model)
        elif name == "size":
            pass
        elif name == "empty":
            pass
        elif name == "clear":
            real.clear()
            model.clear()
            hist.append(("clear",))
            if case["fam"] == "rnd":
                # events created after a clear live next to events created before it: ids keep growing, ties keep breaking
                # by creation order
                top = max(e.id for e in evs)
                for k in range(1, len(evs), 2):
                    t_, p_ = case["events"][k]
                    evs[k] = classes[k % len(classes)](_mk_time(case["kind"], t_), tgt, "m", p_)
                    seq[0] += 1
                    key[k] = (key[k][0], key[k][1], seq[0])
                    idx[id(evs[k])] = k
                    ctx.count("events_created_after_a_clear")
                    if evs[k].id <= top:
                        bad("event-ids-not-unique-or-not-in-creation-order", opi, new_id=evs[k].id, largest_earlier_id=top)
                        break
                    top = evs[k].id
        # observations made after every operation
        cmp("size", opi, real.size(), len(model))
        cmp("is_empty", opi, real.is_empty(), len(model) == 0)
        if model:
            cmp("peek-order", opi, idx.get(id(real.peek_first()), -1), min(model, key=lambda q: key[q]))
        if case["fam"] == "big" and opi % 97 and opi != len(case["ops"]) - 1:
            if stop[0]:
                return
            continue            # (the full membership audit and the drain replay cost O(n^2) on hundreds of events)
        for k in range(len(evs)):
            if real.contains(evs[k]) != (k in model):
                bad("contains", opi, k=k, want=k in model)
        ctx.count("oracle_comparisons", len(evs))
        drain_replay(opi)
        if stop[0]:
            return   # model and implementation have diverged: later observations are consequences
    # final drain of the real list
    out = []
    guard = len(evs) + 2
    while not real.is_empty() and guard > 0:
        out.append(idx.get(id(real.pop_first()), -1))
        guard -= 1
    want = sorted(model, key=lambda k: key[k])
    if out != want:
        bad("final-drain-order", len(case["ops"]), got=out, want=want)
    ctx.count("final_drains")
    if interior_removed and pops_after >= 2:
        ctx.nontrivial = True
    # comparison operators: strict total order agreeing with the key order (random family only: cheap)
    if case["fam"] == "rnd" or len(case["ops"]) == 1:
        for a, b in itertools.product(range(len(evs)), repeat=2):
            ka, kb = key[a], key[b]
            ea, eb = evs[a], evs[b]
            try:
                got = (ea < eb, ea <= eb, ea > eb, ea >= eb, ea == eb, ea != eb)
            except Exception as e:
                bad("compare-raises", 0, a=a, b=b, exc=repr(e))
                continue
            want = (ka < kb, ka <= kb, ka > kb, ka >= kb, ka == kb, ka != kb)
            ctx.count("operator_comparisons", 6)
            if got != want:
                bad("compare-operators", 0, a=case["events"][a], b=case["events"][b], ia=a, ib=b, got=got, want=want)
