"""
C12 - random streams are reproducible, resettable, restorable, independent, in range.
Monitor: the same operation script is executed in lock-step on stream A, on its twin A' (same seed) and on
an unrelated stream B whose draws are interleaved between A's and A''s; A is additionally compared with a
solo run of the script on a fresh stream (independence).  reset / set_seed are judged against a fresh stream
created with the current seed, restore_state against the continuation recorded after the save.
"""
ID = "C12"
LEVEL = "exploration"
TECHNIQUE = "runtime monitor: lock-step twin/solo/interleaved stream histories, bit-exact comparison of every draw"
RULE = ("seeded random scripts of 8-60 ops over next_float/next_int(lo,hi)/next_bool/set_seed/reset/save_state/"
        "restore_state, seeds from {0,+-1,-2^63,2^64+1,10^50,random}, integer ranges single-value/negative/"
        "straddling/huge (2^53-1..2^100); non-trivial = script has >=1 restore or reset after draws and >=2 draw "
        "kinds; distinct = canonical script hash")
RULE += '; a fifth of the cases copy the stream (deepcopy, pickle, copy.copy), half of them after a set_seed'
ASSUMPTIONS = ["integer spans are below 2^1024 (convertible to float)",
               "extreme uniforms (1-2^-53) cannot be forced through the public stream API and are not injected here"]

SEEDS = [0, 1, -1, -2 ** 63, 2 ** 64 + 1, 10 ** 50, 101, 2 ** 32, 2 ** 31 - 1, -12345678901234567890]
RANGES = [(0, 0), (7, 7), (-5, -5), (0, 1), (0, 9), (-10, -1), (-3, 3), (1, 6), (0, 2 ** 53 - 2), (0, 2 ** 53 - 1),
          (0, 2 ** 53), (-2 ** 52, 2 ** 52), (0, 2 ** 64), (-2 ** 100, 2 ** 100), (10 ** 30, 10 ** 30 + 1), (0, 2 ** 31 - 1)]


def plan(tier):
    n = 60000 if tier == "quick" else 1500000
    return {"cases": n, "shards": 16, "timeout": 300 if tier == "quick" else 3000, "min_nontrivial": 1000,
            "min": {"draw_comparisons": 100000, "restore_checks": 1000, "reset_checks": 1000}}


def gen_case(rng, tier, i):
    seed = rng.choice(SEEDS) if rng.random() < 0.6 else rng.randint(-2 ** 70, 2 ** 70)
    n = rng.randint(8, 60)
    ops = []
    nsave = 0
    for _ in range(n):
        r = rng.random()
        if r < 0.30:
            ops.append(["f"])
        elif r < 0.55:
            lo, hi = rng.choice(RANGES) if rng.random() < 0.7 else sorted((rng.randint(-10 ** 6, 10 ** 6), rng.randint(-10 ** 6, 10 ** 6)))
            ops.append(["i", lo, hi])
        elif r < 0.70:
            ops.append(["b"])
        elif r < 0.76:
            # ('same': the stream is seeded again with the seed it has - the sequence starts over all the same)
            ops.append(["seed", "same" if rng.random() < 0.25 else rng.choice(SEEDS) if rng.random() < 0.5 else rng.randint(-10 ** 12, 10 ** 12)])
        elif r < 0.84:
            ops.append(["reset"])
        elif r < 0.92:
            ops.append(["save", nsave])
            nsave += 1
        elif nsave:
            ops.append(["restore", rng.randrange(nsave)])
        else:
            ops.append(["f"])
    return {"seed": seed, "ops": ops, "bseed": rng.choice(SEEDS + [seed])}


def _draw(s, op):
    if op[0] == "f":
        return s.next_float()
    if op[0] == "i":
        return s.next_int(op[1], op[2])
    return s.next_bool()


def _check_range(ctx, op, v):
    ctx.count("range_checks")
    if op[0] == "f":
        if type(v) is not float or not (0.0 <= v < 1.0):
            ctx.viol("float-out-of-range", {"value": repr(v)})
    elif op[0] == "i":
        if type(v) is not int or not (op[1] <= v <= op[2]):
            ctx.viol("int-out-of-range", {"lo": op[1], "hi": op[2], "value": repr(v)})
    else:
        if type(v) is not bool:
            ctx.viol("bool-wrong-type", {"value": repr(v)})


def _script(streams, ops, ctx, other=None, judge=False, seed0=None):
    """run ops in lock-step on all `streams`; returns the list of per-op results of streams[0]"""
    from vlib.base import fx
    res = []
    cur_seed = [seed0]
    saves = {}        # slot -> (states per stream, index into res)
    for op in ops:
        k = op[0]
        if k in ("f", "i", "b"):
            vals = []
            for s in streams:
                vals.append(_draw(s, op))
                if other is not None:
                    other.next_float(); other.next_int(0, 99); other.next_bool()
            if judge:
                _check_range(ctx, op, vals[0])
                for v in vals[1:]:
                    ctx.count("draw_comparisons")
                    if fx(v) != fx(vals[0]) or type(v) is not type(vals[0]):
                        ctx.viol("twin-differs", {"op": op, "a": repr(vals[0]), "twin": repr(v)})
            res.append((op, fx(vals[0])))
        elif k == "seed":
            newseed = cur_seed[0] if op[1] == "same" else op[1]
            for s in streams:
                s.set_seed(newseed)
            cur_seed[0] = newseed
            res.append((op, None))
            if judge:
                _fresh_check(ctx, streams[0], newseed, "set_seed")
                for s in streams:       # _fresh_check consumed draws from streams[0] only: re-align
                    s.set_seed(newseed)
        elif k == "reset":
            for s in streams:
                s.reset()
            res.append((op, None))
            if judge:
                cur = cur_seed[0]        # the seed the *script* made current (a stream that reports another one is wrong)
                _fresh_check(ctx, streams[0], cur, "reset")
                for s in streams:
                    s.reset()
        elif k == "save":
            saves[op[1]] = ([s.save_state() for s in streams], len(res))
            res.append((op, None))
        elif k == "restore":
            states, at = saves[op[1]]
            for s, st in zip(streams, states):
                s.restore_state(st)
            res.append((op, None))
            if judge:
                # the continuation recorded after the save must be reproduced exactly
                follow = []
                for r in res[at + 1:-1]:
                    if r[0][0] in ("seed", "reset", "restore"):
                        break       # the recorded continuation ends where the state was replaced
                    if r[0][0] in ("f", "i", "b"):
                        follow.append(r)
                follow = follow[:6]
                for fop, fval in follow:
                    ctx.count("restore_checks")
                    v = _draw(streams[0], fop)
                    if fx(v) != fval:
                        ctx.viol("restore-continuation-differs", {"op": fop, "after_save": fval, "after_restore": fx(v)})
                for s, st in zip(streams, states):
                    s.restore_state(st)
    return res


def _fresh_check(ctx, s, seed, what):
    from pydsol.core.streams import MersenneTwister
    from vlib.base import fx
    fresh = MersenneTwister(seed)
    for op in (["f"], ["i", -3, 12], ["b"], ["f"]):
        a, b = _draw(s, op), _draw(fresh, op)
        ctx.count("reset_checks")
        if fx(a) != fx(b):
            ctx.viol(f"{what}-does-not-replay-seed", {"seed": seed, "op": op, "stream": fx(a), "fresh": fx(b)})
    if s.seed() != seed:
        ctx.viol(f"{what}-seed-getter", {"seed": seed, "got": s.seed()})


def _containers(case, ctx):
    """the stream containers hand out streams too: the 'default' stream of one StreamInformation is nobody else's"""
    from pydsol.core.streams import MersenneTwister, StreamInformation, StreamSeedInformation
    for cls in (StreamInformation, StreamSeedInformation):
        x, y = cls(), cls()
        sx, sy = x.get_stream("default"), y.get_stream("default")
        ctx.count("container_default_streams_compared")
        if sx is sy:
            ctx.viol("streams-share-state:default-stream-of-two-containers", {"container": cls.__name__})
            return
        for _ in range(1 + case["seed"] % 5):
            sx.next_float()
        sx.set_seed(case["bseed"])
        ref = MersenneTwister(sy.original_seed())
        if [sy.next_float() for _ in range(5)] != [ref.next_float() for _ in range(5)] or sy.seed() != sy.original_seed():
            ctx.viol("streams-share-state:default-stream-of-two-containers", {"container": cls.__name__, "note": "draws on one changed the other"})
            return


def _copies(case, ctx):
    """a deep copy (or a pickle round trip) of a stream is a stream of its own: it continues like the original would, and neither
    disturbs the other; any copy - copy.copy too - reports the seeds of the original and its reset() replays the current seed"""
    import copy, pickle
    from pydsol.core.streams import MersenneTwister
    for how in ("deepcopy", "pickle", "copy"):
        m, ref = MersenneTwister(case["seed"]), MersenneTwister(case["seed"])
        cur = case["seed"]
        if case["bseed"] % 2:
            # the current seed is no longer the original one (what a stream updater does between replications)
            cur = case["bseed"]
            m.set_seed(cur); ref.set_seed(cur)
        for _ in range(1 + case["bseed"] % 4):
            m.next_float(); ref.next_float()
        c = copy.deepcopy(m) if how == "deepcopy" else pickle.loads(pickle.dumps(m)) if how == "pickle" else copy.copy(m)
        ctx.count("stream_copies")
        if c.seed() != cur or c.original_seed() != case["seed"]:
            ctx.viol(f"seed-getters-of-a-copy:{how}", {"seed": case["seed"], "current": cur, "copy_reports": [c.seed(), c.original_seed()]})
            return
        if how != "copy":
            want = [ref.next_float() for _ in range(6)]
            got_c = [c.next_float() for _ in range(6)]
            got_m = [m.next_float() for _ in range(6)]
            if got_c != want or got_m != want:
                ctx.viol(f"streams-share-state:{how}", {"seed": case["seed"], "copy": got_c[:3], "original": got_m[:3], "expected": want[:3]})
                return
        c.reset()
        first = MersenneTwister(cur)
        if [c.next_float() for _ in range(3)] != [first.next_float() for _ in range(3)] or (how != "copy" and m.next_float() != ref.next_float()):
            ctx.viol(f"streams-share-state:{how}" if how != "copy" else "reset-does-not-replay-seed:copy", {"seed": case["seed"], "current": cur, "note": "reset of the copy"})
            return


def _seedless(case, ctx):
    """a stream created without a seed picks one itself - and is then as reproducible as any other: reset() replays,
    and a second stream created with the seed it reports gives the same sequence"""
    from pydsol.core.streams import MersenneTwister
    m = MersenneTwister()
    ctx.count("seedless_streams")
    s0 = m.seed()
    if not isinstance(s0, int) or m.original_seed() != s0:
        ctx.viol("seed-getter-after-construction", {"seed": None, "got": [repr(s0), repr(m.original_seed())]})
        return
    first = [m.next_float(), m.next_int(0, 1000), m.next_bool(), m.next_float()]
    m.reset()
    again = [m.next_float(), m.next_int(0, 1000), m.next_bool(), m.next_float()]
    t = MersenneTwister(s0)
    twin = [t.next_float(), t.next_int(0, 1000), t.next_bool(), t.next_float()]
    if again != first:
        ctx.viol("reset-does-not-replay-seed", {"seed": "chosen by the stream", "reported": s0})
    elif twin != first:
        ctx.viol("twin-differs", {"seed": "chosen by the stream", "reported": s0})


def run_case(case, ctx):
    if case["seed"] % 8 == 3:
        # the user has switched the library's loggers to DEBUG: what a stream delivers does not depend on the log level
        import logging
        from vlib.base import library_loggers_at
        ctx.count("cases_with_the_library_loggers_at_DEBUG")
        with library_loggers_at(logging.DEBUG):
            return _run_case(case, ctx)
    return _run_case(case, ctx)


def _run_case(case, ctx):
    from pydsol.core.streams import MersenneTwister
    seed, ops = case["seed"], case["ops"]
    if case["seed"] % 7 == 0:
        _containers(case, ctx)
    if case["seed"] % 16 == 1:
        _seedless(case, ctx)
    if case["seed"] % 5 == 2:
        _copies(case, ctx)
    a, a2, b = MersenneTwister(seed), MersenneTwister(seed), MersenneTwister(case["bseed"])
    if a.seed() != seed or a.original_seed() != seed:
        ctx.viol("seed-getter-after-construction", {"seed": seed, "got": [a.seed(), a.original_seed()]})
    r_lock = _script([a, a2], ops, ctx, other=b, judge=True, seed0=seed)
    if a.original_seed() != seed:
        ctx.viol("original-seed-changed", {"seed": seed, "got": a.original_seed()})
    solo = MersenneTwister(seed)
    r_solo = _script([solo], ops, ctx, other=None, judge=False, seed0=seed)
    ctx.count("draw_comparisons", len(r_solo))
    if r_lock != r_solo:
        first = next(i for i, (x, y) in enumerate(zip(r_lock, r_solo)) if x != y)
        ctx.viol("interleaved-differs-from-solo", {"first_op": first, "op": ops[first], "interleaved": r_lock[first][1],
                                                   "solo": r_solo[first][1]})
    kinds = {o[0] for o in ops if o[0] in ("f", "i", "b")}
    drew = False
    for o in ops:
        if o[0] in ("f", "i", "b"):
            drew = True
        if o[0] in ("reset", "restore") and drew and len(kinds) >= 2:
            ctx.nontrivial = True
    ctx.seen("seed_class", "huge" if abs(seed) > 2 ** 63 else ("neg" if seed < 0 else ("zero" if seed == 0 else "pos")))
