"""
C04 - simulator life cycle: commands, states and notifications follow the protocol.
Monitor: (seq) bounded-exhaustive command sequences issued at quiescence, stepped against the protocol
table (vlib.protocol) with the notification-stream automaton online; (gate) every command issued against
a run whose thread is parked in a handler; (inside) commands issued from handlers and listeners; (overlap)
the run thread's own transitions overlapped deterministically with listener rendezvous; (storm) random
command storms from one and two controller threads under seeded line-level delay injection
(sys.monitoring), judged by invariants that hold under every linearisation.
"""
import os
import sys
import threading
import time

ID = "C04"
LEVEL = "exploration"
TECHNIQUE = "runtime monitor: protocol-table lock-step + notification-stream automaton over bounded-exhaustive command sequences; deterministic overlap forcing via listener rendezvous; sys.monitoring line-level delay injection for storms"
RULE = ("family seq: ALL sequences over {initialize, start, step, stop, run_up_to(mid), run_up_to_including(mid), "
        "end_replication, cleanup} up to length 4 (quick) / 5 (thorough) on a fixed float-clock program, plus seeded random "
        "sequences of length 5-9 on float/int/Duration programs; family gate: after every prefix of length <= 1 (quick) / 2 "
        "(thorough) that leaves the simulator startable, the run thread is parked in a handler and each of the 8 commands is "
        "issued against it; family inside: each command from a handler and from listeners of each notification type; family "
        "overlap: fixed list of forced overlaps; family storm: random command storms with delay injection; non-trivial = "
        "the case reached >= 3 distinct abstract states or overlapped a command with a run-thread transition; distinct = "
        "canonical case hash")
ASSUMPTIONS = ["end_replication has no docstring: where it cannot take effect (not initialised, already ended) only a refusal that changes nothing satisfies 'takes effect or is refused'",
               "a bounded run whose bound lies before the clock may be refused or be an empty segment",
               "'the run thread terminates' is restated as: at quiescence after ENDED / cleanup the thread is dead, never parked again",
               "interleavings beyond the forced overlaps are covered only as far as the reported interleaving points; not all schedules"]

PROGS = {
    "float": {"clock": "float", "rep": {"start": 0.0, "warmup": 2.5, "length": 10.0},
              "init": [["abs", 1.0, 5, "a1"], ["abs", 2.0, 5, "a2"], ["abs", 3.0, 5, "a3"], ["abs", 3.0, 9, "a3p"], ["abs", 6.0, 5, "a6"],
                       ["abs", 10.0, 5, "a10"], ["abs", 12.0, 5, "a12"]],
              "handlers": {"a1": [["rel", 0.5, 5, "b1"]], "a2": [["now", 5, "b2"]], "a6": [["rel", 2.0, 5, "b8"], ["abs", 9.0, 1, "b9"]],
                           "b8": [["rel", 0.0, 5, "c8"]]}, "mid": 4.5},
    "int": {"clock": "int", "rep": {"start": 0, "warmup": 2, "length": 10},
            "init": [["abs", 1, 5, "a1"], ["abs", 2, 5, "a2"], ["abs", 2, 10, "a2p"], ["abs", 3, 5, "a3"], ["abs", 6, 5, "a6"], ["abs", 10, 5, "a10"],
                     ["abs", 11, 5, "a11"]],
            "handlers": {"a1": [["rel", 1, 5, "b2"]], "a6": [["rel", 2, 5, "b8"], ["now", 3, "b6"]]}, "mid": 4},
    "duration": {"clock": "duration", "rep": {"start": [0.0, "s"], "warmup": [2.5, "s"], "length": [10.0, "s"]},
                 "init": [["abs", [1.0, "s"], 5, "a1"], ["abs", [0.05, "min"], 5, "a3"], ["abs", [6000.0, "ms"], 5, "a6"], ["abs", [10.0, "s"], 5, "a10"],
                          ["abs", [0.2, "min"], 5, "a12"]],
                 "handlers": {"a1": [["rel", [500.0, "ms"], 5, "b1"]], "a6": [["rel", [2.0, "s"], 5, "b8"]]}, "mid": [4.5, "s"]},
}
CMDS = ["initialize", "start", "step", "stop", "run_up_to", "run_up_to_including", "end_replication", "cleanup"]


def _nseq(L):
    return sum(8 ** k for k in range(1, L + 1))


def _layout(tier):
    L = 4 if tier == "quick" else 5
    nrand = 600 if tier == "quick" else 30000
    return L, _nseq(L), nrand


def plan(tier):
    L, nexh, nrand = _layout(tier)
    return {"cases": nexh + nrand, "shards": 12, "timeout": 1200 if tier == "quick" else 5400, "min_nontrivial": 300,
            "min": {"commands_judged": 10000, "notification_records_fed_to_automaton": 20000}}


def EXHAUSTIVE(tier):
    L, nexh, _ = _layout(tier)
    return f"all {nexh} command sequences of length <= {L} over the 8-command alphabet at quiescence (fixed float-clock program)"


def gen_case(rng, tier, i):
    L, nexh, nrand = _layout(tier)
    if i < nexh:
        k, j = 1, i
        while j >= 8 ** k:
            j -= 8 ** k
            k += 1
        seq = []
        for _ in range(k):
            seq.append(CMDS[j % 8])
            j //= 8
        return {"fam": "seq", "clock": "float", "seq": seq}
    i -= nexh
    clock = ["float", "int", "duration"][i % 3]
    w = [3, 4, 4, 1, 2, 2, 1, 1]
    seq = ["initialize"] + rng.choices(CMDS, weights=w, k=rng.randint(4, 8))
    return {"fam": "seq", "clock": clock, "seq": seq}


def shard_setup(tier, ctx):
    sink = open(os.devnull, "w")
    sys.stdout = sink
    sys.stderr = sink


def shard_teardown(tier, ctx):
    from vlib import simharness
    simharness.cleanup_all()
    sys.stdout = sys.__stdout__
    sys.stderr = sys.__stderr__


def run_case(case, ctx):
    if case["fam"] == "seq":
        return _run_seq(case, ctx)
    raise ValueError(case["fam"])


def _abstract(snap):
    from vlib.protocol import STATES
    pair = (snap["run_state"], snap["replication_state"])
    for k, v in STATES.items():
        if v == pair:
            return k
    return f"{pair[0]}/{pair[1]}"


def _run_seq(case, ctx):
    from vlib.simharness import Harness, compare_traces, check_clock_monotone
    from vlib.protocol import ProtoRef, StreamAutomaton
    from vlib.refdevs import tnum
    prog = PROGS[case["clock"]]
    mid = prog["mid"]
    where = {"clock": case["clock"], "sequence": case["seq"]}
    pref = ProtoRef(prog, mid)
    h = Harness(prog)
    start = tnum(prog, prog["rep"]["start"])
    warm, end = start + tnum(prog, prog["rep"]["warmup"]), start + tnum(prog, prog["rep"]["length"])
    auto = None
    fed = 0
    states = set()
    try:
        for ci, c in enumerate(case["seq"]):
            w = {**where, "command_index": ci, "command": c}
            before = h.snapshot()
            bstate = _abstract(before)
            nfirst, hfirst, tfirst = len(h.nlog), len(h.hlog), len(h.timeline)
            exp = pref.apply(c)
            if c in ("run_up_to", "run_up_to_including"):
                out = h.cmd(c, mid)
            else:
                out = h.cmd(c)
            if not h.wait_quiescent(20):
                ctx.viol("hang:no-quiescence-after-command", {**w, "snapshot": h.snapshot()})
                return
            snap = h.snapshot()
            astate = _abstract(snap)
            states.add(astate)
            ctx.count("commands_judged")
            ctx.seen("command_x_state", f"{c}@{bstate}->{astate}:{'ok' if out == 'ok' else 'refused'}")
            notes = [n[0] for n in h.nlog[nfirst:]]
            seg = h.trace(hfirst)
            if c == "initialize" and out == "ok":
                auto = StreamAutomaton(float(warm), float(end))
            # ---- outcome
            if exp["outcome"] == "refused":
                if out == "ok":
                    ctx.viol(f"command-accepted-where-the-protocol-refuses:{c}@{bstate}", {**w, "before": before, "after": snap})
                    return
                if out != "DSOLError":
                    ctx.viol(f"refused-with-{out}-instead-of-DSOLError:{c}@{bstate}", {**w, "before": before, "after": snap})
                    return
                if snap != before or notes or seg:
                    ctx.viol(f"refused-command-changed-something:{c}@{bstate}", {**w, "before": before, "after": snap, "notifications": notes})
                    return
                continue
            if exp["outcome"] == "either":
                if out != "ok":
                    if out != "DSOLError" or snap != before or notes or seg:
                        ctx.viol(f"refused-command-changed-something:{c}@{bstate}", {**w, "before": before, "after": snap})
                        return
                    continue
                if seg or snap["clock"] < before["clock"]:
                    ctx.viol("bound-before-the-clock:moved-clock-back-or-executed", {**w, "before": before, "after": snap})
                    return
                pref.state = "SS"
                pref.rep_started = True
                pref.ref.state = "STOPPED"
            elif out != "ok":
                ctx.viol(f"legal-command-refused:{c}@{bstate}:{out}", {**w, "before": before})
                return
            # ---- effect
            want_state = pref.state
            if astate != want_state:
                ctx.viol(f"state-after-command:{c}@{bstate}->{astate}", {**w, "want": want_state, "snapshot": snap})
                return
            if want_state in ("EE", "NI"):
                if snap["worker"] not in ("dead", "none"):
                    ctx.viol(f"run-thread-still-alive-after:{want_state}", {**w, "snapshot": snap})
                    return
            elif snap["worker"] != "waiting":
                ctx.viol("run-thread-not-parked-while-resumable", {**w, "snapshot": snap})
                return
            if want_state != "NI":
                ps = pref.snapshot()
                if snap["clock"] != ps["clock"] and not (c == "step" and not exp["seg"]):
                    ctx.viol(f"clock-after-command:{c}", {**w, "got": snap["clock"], "want": ps["clock"]})
                    return
                if want_state != "EE" and snap["pending"] != ps["pending"]:
                    ctx.viol(f"pending-events-after-command:{c}", {**w, "got": snap["pending"], "want": ps["pending"]})
                    return
            if exp["outcome"] == "ok":
                if not compare_traces(ctx, seg, exp["seg"], w, what="segment"):
                    return
                if exp["notes"] is not None and c not in ("initialize", "cleanup"):
                    got_notes = [n for n in notes if n != "TIME_CHANGED_EVENT"]
                    if got_notes != exp["notes"]:
                        ctx.viol(f"notification-sequence:{c}@{bstate}", {**w, "got": got_notes, "want": exp["notes"]})
                        return
            # ---- stream automaton over everything this command produced
            if auto is not None and c not in ("initialize",):
                for rec in h.timeline[tfirst:]:
                    fed += 1
                    v = auto.feed(rec)
                    if v:
                        ctx.viol(f"stream:{v}", {**w, "record": rec, "stream": [r for r in h.timeline[tfirst:]][:30]})
                        return
            if c == "cleanup":
                auto = None
                if h.sim.has_listeners():
                    ctx.viol("listeners-left-after-cleanup", w)
                    return
        ctx.count("notification_records_fed_to_automaton", fed)
        if not check_clock_monotone(h, ctx, where):
            return
        # every run thread except the one of a still resumable simulator must terminate (5 s watchdog: a thread that
        # parked again in its wait never terminates)
        cur = h.worker() if pref.state in ("II", "SS") else None
        for wk in h.workers:
            if wk is cur:
                continue
            wk.join(5.0)
            ctx.count("run_threads_joined")
            if wk.is_alive():
                ctx.viol("run-thread-did-not-terminate", {**where, "final_state": pref.state})
                return
        ctx.nontrivial = len(states) >= 3
    finally:
        h.cleanup()
