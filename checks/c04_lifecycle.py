"""
C04 - simulator life cycle: commands, states and notifications follow the protocol.
Monitor: (seq) bounded-exhaustive command sequences issued at quiescence, stepped against the protocol
table (vlib.protocol) with the notification-stream automaton online; (gate) every command issued against
a run whose thread is parked in a handler; (inside) commands issued from handlers and listeners; (overlap)
the run thread's own transitions overlapped deterministically with listener rendezvous; (storm) random
command storms from one and two controller threads under seeded line-level delay injection
(sys.monitoring), judged by invariants that hold under every linearisation.
"""
from vlib.simharness import num
import math
import os
import sys
import threading
import time

ID = "C04"
LEVEL = "exploration"
TECHNIQUE = "runtime monitor: protocol-table lock-step + notification-stream automaton over bounded-exhaustive command sequences; deterministic overlap forcing via listener rendezvous; sys.monitoring line-level delay injection for storms"
RULE = ("family seq: ALL sequences over {initialize, start, step, stop, run_up_to(mid), run_up_to_including(mid), "
        "end_replication, cleanup} up to length 4 (quick) / 6 (thorough) on a fixed float-clock program, plus seeded random "
        "sequences of length 5-9 on float/int/Duration programs; family gate: after every prefix of length <= 1 (quick) / 2 "
        "(thorough) that leaves the simulator startable, the run thread is parked in a handler and each of the 8 commands is "
        "issued against it; family inside: each command from a handler and from listeners of each notification type; family "
        "overlap: fixed list of forced overlaps; (family seq also records the run state the caller sees the moment an accepted start returns); family storm: random command storms with delay injection; non-trivial = "
        "the case reached >= 3 distinct abstract states or overlapped a command with a run-thread transition; distinct = "
        "canonical case hash")
RULE += "; random sequences also contain bounds just before the end (':late') and initialisations that the model aborts ('initialize:fail')"
ASSUMPTIONS = ["end_replication has no docstring: where it cannot take effect (not initialised, already ended) only a refusal that changes nothing satisfies 'takes effect or is refused'",
               "a bounded run whose bound lies before the clock may be refused or be an empty segment",
               "'the run thread terminates' is restated as: at quiescence after ENDED / cleanup the thread is dead, never parked again",
               "interleavings beyond the forced overlaps are covered only as far as the reported interleaving points; not all schedules"]

PROGS = {
    "float": {"clock": "float", "rep": {"start": 0.0, "warmup": 2.5, "length": 10.0},
              "init": [["abs", 1.0, 5, "a1"], ["abs", 2.0, 5, "a2"], ["abs", 3.0, 5, "a3"], ["abs", 3.0, 9, "a3p"], ["abs", 6.0, 5, "a6"],
                       ["abs", 10.0, 5, "a10"], ["abs", 12.0, 5, "a12"]],
              "handlers": {"a1": [["rel", 0.5, 5, "b1"]], "a2": [["now", 5, "b2"]], "a6": [["rel", 2.0, 5, "b8"], ["abs", 9.0, 1, "b9"]],
                           "b8": [["rel", 0.0, 5, "c8"]]}, "mid": 4.5},
    # non-zero start time: absolute times, the warm-up time and the end are all offset by 3
    "int": {"clock": "int", "rep": {"start": 3, "warmup": 2, "length": 10},
            "init": [["abs", 4, 5, "a1"], ["abs", 5, 5, "a2"], ["abs", 5, 10, "a2p"], ["abs", 6, 5, "a3"], ["abs", 9, 5, "a6"], ["abs", 13, 5, "a10"],
                     ["abs", 14, 5, "a11"]],
            "handlers": {"a1": [["rel", 1, 5, "b2"]], "a6": [["rel", 2, 5, "b8"], ["now", 3, "b6"]]}, "mid": 7},
    "duration": {"clock": "duration", "rep": {"start": [0.0, "s"], "warmup": [2.5, "s"], "length": [10.0, "s"]},
                 "init": [["abs", [1.0, "s"], 5, "a1"], ["abs", [0.05, "min"], 5, "a3"], ["abs", [6000.0, "ms"], 5, "a6"], ["abs", [10.0, "s"], 5, "a10"],
                          ["abs", [0.2, "min"], 5, "a12"]],
                 "handlers": {"a1": [["rel", [500.0, "ms"], 5, "b1"]], "a6": [["rel", [2.0, "s"], 5, "b8"]]}, "mid": [4.5, "s"]},
}
# the same three programs with a warm-up period of zero (warm-up time = start time): the warm-up notification is due all the same
import copy as _copy
for _k in ("float", "int", "duration"):
    PROGS[_k + "0"] = _copy.deepcopy(PROGS[_k])
    PROGS[_k + "0"]["rep"]["warmup"] = {"float": 0.0, "int": 0, "duration": [0.0, "s"]}[_k]
CMDS = ["initialize", "start", "step", "stop", "run_up_to", "run_up_to_including", "end_replication", "cleanup"]


def _nseq(L):
    return sum(8 ** k for k in range(1, L + 1))


NOTE_TYPES = ["START_REPLICATION_EVENT", "STARTING_EVENT", "START_EVENT", "TIME_CHANGED_EVENT", "WARMUP_EVENT", "STOPPING_EVENT",
              "STOP_EVENT", "END_REPLICATION_EVENT"]
SITES = ["handler"] + NOTE_TYPES
OVERLAPS = ["stop-vs-natural-end", "start-during-stopping", "step-during-stopping", "bounded-run-during-stopping",
            "end_replication-in-bounded-run", "stop-then-start-fast", "rapid-start-stop"]


def _prefixes(tier):
    ps = [[]] + [[c] for c in CMDS]
    if tier != "quick":
        ps += [[a, b] for a in CMDS for b in CMDS]
    return ps


def _layout(tier):
    L = 4 if tier == "quick" else 6
    nrand = 600 if tier == "quick" else 30000
    ngate = len(_prefixes(tier)) * 2 * 8
    ninside = len(SITES) * 8 * 3        # x starter in {start, run_up_to_including, step}
    novl = len(OVERLAPS) * 3
    nstorm = 48 if tier == "quick" else 12000
    return L, _nseq(L), nrand, ngate, ninside, novl, nstorm


def plan(tier):
    L, nexh, nrand, ngate, ninside, novl, nstorm = _layout(tier)
    return {"cases": nexh + nrand + ngate + ninside + novl + nstorm, "shards": 12, "timeout": 1500 if tier == "quick" else 7200,
            "min_nontrivial": 300,
            "min": {"commands_judged": 10000, "notification_records_fed_to_automaton": 20000, "commands_against_a_parked_run": 60,
                    "commands_from_inside": 60, "forced_overlaps": 15, "storms": 30}}


def EXHAUSTIVE(tier):
    L, nexh = _layout(tier)[:2]
    return f"all {nexh} command sequences of length <= {L} over the 8-command alphabet at quiescence (fixed float-clock program)"


def gen_case(rng, tier, i):
    L, nexh, nrand, ngate, ninside, novl, nstorm = _layout(tier)
    if i < nexh:
        k, j = 1, i
        while j >= 8 ** k:
            j -= 8 ** k
            k += 1
        seq = []
        for _ in range(k):
            seq.append(CMDS[j % 8])
            j //= 8
        return {"fam": "seq", "clock": "float", "seq": seq}
    i -= nexh
    if i < nrand:
        clock = ["float", "int", "duration"][i % 3]
        w = [3, 4, 4, 1, 2, 2, 1, 1]
        seq = ["initialize"] + rng.choices(CMDS, weights=w, k=rng.randint(4, 8))
        for _ in range(rng.choice([0, 1, 1, 2])):
            # a bound that is not a time: refused like any other illegal command, in every state
            seq.insert(rng.randint(0, len(seq)), rng.choice(["run_up_to:nan", "run_up_to_including:nan"]))
        if rng.random() < 0.4:
            # a bound of exactly zero is a time like any other (the replication start of two of the three programs)
            seq.insert(rng.randint(1, len(seq)), rng.choice(["run_up_to:zero", "run_up_to_including:zero"]))
        if rng.random() < 0.4:
            seq.insert(rng.randint(1, len(seq)), rng.choice(["run_up_to:late", "run_up_to_including:late"]))
        if rng.random() < 0.3:
            # an initialize that the model aborts (its construct_model raises): the simulator is not initialised afterwards,
            # and a cleanup() after it ends the run thread like any other cleanup
            seq.insert(rng.randint(0, len(seq)), "initialize:fail")
        return {"fam": "seq", "clock": clock, "seq": seq, "oneshot": rng.random() < 0.5, "progkey": clock + ("0" if (i // 3) % 4 == 1 else "")}
    i -= nrand
    if i < ngate:
        ps = _prefixes(tier)
        p, rest = divmod(i, 16)
        st, x = divmod(rest, 8)
        return {"fam": "gate", "clock": ["float", "int", "duration"][p % 3], "prefix": ps[p], "starter": ["start", "run_up_to_including"][st],
                "x": CMDS[x]}
    i -= ngate
    if i < ninside:
        rep, rest = divmod(i, len(SITES) * 8)
        site, x = divmod(rest, 8)
        return {"fam": "inside", "clock": ["float", "int", "duration"][rep % 3], "site": SITES[site], "x": CMDS[x],
                "starter": ["start", "run_up_to_including", "step"][rep % 3]}
    i -= ninside
    if i < novl:
        return {"fam": "ovl", "clock": ["float", "int", "duration"][i % 3], "scenario": OVERLAPS[i // 3]}
    i -= novl
    n = rng.randint(10, 40)
    w = [2, 6, 3, 6, 2, 2, 1, 1]
    cmds = rng.choices(CMDS, weights=w, k=n)
    return {"fam": "storm", "clock": ["float", "int", "duration"][i % 3], "threads": 1, "commands": cmds,
            "points": rng.randint(0, 3), "delays": [rng.choice([0.00005, 0.0005, 0.005]) for _ in range(3)], "pseed": rng.randint(0, 10 ** 9),
            "gaps": [rng.choice([0, 0, 0.0002, 0.002]) for _ in range(n)]}


def shard_setup(tier, ctx):
    sink = open(os.devnull, "w")
    sys.stdout = sink
    sys.stderr = sink


def shard_teardown(tier, ctx):
    from vlib import simharness
    simharness.cleanup_all()
    sys.stdout = sys.__stdout__
    sys.stderr = sys.__stderr__


def run_case(case, ctx):
    fam = case["fam"]
    if fam == "seq":
        return _run_seq(case, ctx)
    if fam == "gate":
        return _run_gate(case, ctx)
    if fam == "inside":
        return _run_inside(case, ctx)
    if fam == "ovl":
        return _run_ovl(case, ctx)
    if fam == "storm":
        return _run_storm(case, ctx)
    raise ValueError(fam)


def _abstract(snap):
    from vlib.protocol import STATES
    pair = (snap["run_state"], snap["replication_state"])
    for k, v in STATES.items():
        if v == pair:
            return k
    return f"{pair[0]}/{pair[1]}"


def _run_seq(case, ctx):
    from vlib.simharness import Harness, compare_traces, check_clock_monotone
    from vlib.protocol import ProtoRef, StreamAutomaton
    from vlib.refdevs import tnum
    prog = PROGS[case.get("progkey", case["clock"])]
    mid = prog["mid"]
    where = {"clock": case["clock"], "sequence": case["seq"], "warmup_period": prog["rep"]["warmup"]}
    pref = ProtoRef(prog, mid)
    h = Harness(prog)
    h.oneshot = bool(case.get("oneshot"))
    start = tnum(prog, prog["rep"]["start"])
    warm, end = start + tnum(prog, prog["rep"]["warmup"]), start + tnum(prog, prog["rep"]["length"])
    auto = None
    fed = 0
    parked_ok = False
    states = set()
    try:
        for ci, c in enumerate(case["seq"]):
            w = {**where, "command_index": ci, "command": c}
            before = h.snapshot()
            bstate = _abstract(before)
            nfirst, hfirst, tfirst = len(h.nlog), len(h.hlog), len(h.timeline)
            if c in ("initialize", "cleanup"):
                parked_ok = False
            if c == "initialize:fail":
                def _boom(model):
                    raise RuntimeError("the model's construct_model failed")
                h.on_construct = _boom
                out = h.cmd("initialize")
                h.on_construct = None
                ctx.count("initializations_aborted_by_the_model")
                if not h.wait_quiescent(20):
                    ctx.viol("hang:no-quiescence-after-command", {**w, "snapshot": h.snapshot()})
                    return
                snap = h.snapshot()
                if out != "RuntimeError" or _abstract(snap) != "NI":
                    ctx.viol(f"aborted-initialize:{out}:{_abstract(snap)}", {**w, "before": before, "after": snap})
                    return
                pref.apply("cleanup")       # (abstract state: not initialised)
                parked_ok = True            # (the run thread of the aborted attempt stays parked until a cleanup: not judged)
                auto = None
                states.add("NI")
                continue
            if c.endswith(":nan"):
                exp = {"outcome": "refused", "seg": [], "notes": [], "state": pref.state}
                out = h.cmd(c[:-4], math.nan)
                ctx.count("not-a-time_bounds_issued")
            elif c.endswith(":zero"):
                zero = {"float": 0.0, "int": 0, "duration": [0.0, "s"]}[case["clock"]]
                pref.mid = zero
                exp = pref.apply(c[:-5])
                pref.mid = mid
                out = h.cmd(c[:-5], zero)
                ctx.count("zero_bounds_issued")
            elif c.endswith(":late"):
                # a bound between the last event inside the run and the replication end (the next pending event then lies at
                # or beyond the end): the run pauses at the bound like at any other
                late = {"float": 9.5, "int": 12, "duration": [9.0, "s"]}[case["clock"]]
                pref.mid = late
                exp = pref.apply(c[:-5])
                pref.mid = mid
                out = h.cmd(c[:-5], late)
                ctx.count("late_bounds_issued")
            else:
                exp = pref.apply(c)
                if c in ("run_up_to", "run_up_to_including"):
                    out = h.cmd(c, mid)
                else:
                    out = h.cmd(c)
            if out == "ok" and c in ("start", "run_up_to", "run_up_to_including") and exp["outcome"] == "ok":
                # an accepted start returns once the run thread has taken over: STARTING is a state inside the call
                ctx.count("accepted_starts_observed_at_return")
                if h.state_at_return == "STARTING" and h.cmd_seconds < 0.5:       # (the library's own 1 s wait timing out on a loaded machine is not judged)
                    ctx.viol(f"start-returned-while-still-STARTING:{c}@{bstate}", {**w, "before": before})
                    return
            if not h.wait_quiescent(20):
                ctx.viol("hang:no-quiescence-after-command", {**w, "snapshot": h.snapshot()})
                return
            snap = h.snapshot()
            astate = _abstract(snap)
            states.add(astate)
            ctx.count("commands_judged")
            ctx.seen("command_x_state", f"{c}@{bstate}->{astate}:{'ok' if out == 'ok' else 'refused'}")
            notes = [n[0] for n in h.nlog[nfirst:]]
            seg = h.trace(hfirst)
            if c == "initialize" and out == "ok":
                auto = StreamAutomaton(num(warm), num(end))
            # ---- outcome
            if exp["outcome"] == "refused":
                if out == "ok":
                    ctx.viol(f"command-accepted-where-the-protocol-refuses:{c}@{bstate}", {**w, "before": before, "after": snap})
                    return
                if out != "DSOLError":
                    ctx.viol(f"refused-with-{out}-instead-of-DSOLError:{c}@{bstate}", {**w, "before": before, "after": snap})
                    return
                if snap != before or notes or seg:
                    ctx.viol(f"refused-command-changed-something:{c}@{bstate}", {**w, "before": before, "after": snap, "notifications": notes})
                    return
                continue
            if exp["outcome"] == "either":
                if out != "ok":
                    if out != "DSOLError" or snap != before or notes or seg:
                        ctx.viol(f"refused-command-changed-something:{c}@{bstate}", {**w, "before": before, "after": snap})
                        return
                    continue
                if seg or snap["clock"] < before["clock"]:
                    ctx.viol("bound-before-the-clock:moved-clock-back-or-executed", {**w, "before": before, "after": snap})
                    return
                pref.state = "SS"
                pref.rep_started = True
                pref.ref.state = "STOPPED"
            elif out != "ok":
                ctx.viol(f"legal-command-refused:{c}@{bstate}:{out}", {**w, "before": before})
                return
            # ---- effect
            want_state = pref.state
            if astate != want_state:
                ctx.viol(f"state-after-command:{c}@{bstate}->{astate}", {**w, "want": want_state, "snapshot": snap})
                return
            if want_state in ("EE", "NI"):
                if snap["worker"] not in ("dead", "none"):
                    ctx.viol(f"run-thread-still-alive-after:{want_state}", {**w, "snapshot": snap})
                    return
            elif snap["worker"] != "waiting":
                ctx.viol("run-thread-not-parked-while-resumable", {**w, "snapshot": snap})
                return
            if want_state != "NI":
                ps = pref.snapshot()
                if snap["clock"] != ps["clock"] and not (c == "step" and not exp["seg"]):
                    ctx.viol(f"clock-after-command:{c}", {**w, "got": snap["clock"], "want": ps["clock"]})
                    return
                if want_state != "EE" and snap["pending"] != ps["pending"]:
                    ctx.viol(f"pending-events-after-command:{c}", {**w, "got": snap["pending"], "want": ps["pending"]})
                    return
            if exp["outcome"] == "ok":
                if not compare_traces(ctx, seg, exp["seg"], w, what="segment"):
                    return
                if exp["notes"] is not None and c not in ("initialize", "cleanup"):
                    got_notes = [n for n in notes if n != "TIME_CHANGED_EVENT"]
                    if got_notes != exp["notes"]:
                        ctx.viol(f"notification-sequence:{c}@{bstate}", {**w, "got": got_notes, "want": exp["notes"]})
                        return
            # ---- stream automaton over everything this command produced
            if auto is not None and c not in ("initialize",):
                for rec in h.timeline[tfirst:]:
                    fed += 1
                    v = auto.feed(rec)
                    if v:
                        ctx.viol(f"stream:{v}", {**w, "record": rec, "stream": [r for r in h.timeline[tfirst:]][:30]})
                        return
            if c == "cleanup":
                auto = None
                if h.sim.has_listeners():
                    ctx.viol("listeners-left-after-cleanup", w)
                    return
        ctx.count("notification_records_fed_to_automaton", fed)
        if not check_clock_monotone(h, ctx, where):
            return
        # every run thread except the one of a still resumable simulator must terminate (5 s watchdog: a thread that
        # parked again in its wait never terminates)
        cur = h.worker() if (pref.state in ("II", "SS") or parked_ok) else None
        for wk in h.workers:
            if wk is cur:
                continue
            wk.join(5.0)
            ctx.count("run_threads_joined")
            if wk.is_alive():
                ctx.viol("run-thread-did-not-terminate", {**where, "final_state": pref.state})
                return
        ctx.nontrivial = len(states) >= 3
    finally:
        h.cleanup()


# =========================================================================================== overlapped families
def _times(prog):
    from vlib.refdevs import tnum
    start = tnum(prog, prog["rep"]["start"])
    return start, start + tnum(prog, prog["rep"]["warmup"]), start + tnum(prog, prog["rep"]["length"])


def _issue(h, x, mid):
    return h.cmd(x, mid) if x in ("run_up_to", "run_up_to_including") else h.cmd(x)


def _in_thread(fn):
    res = {}

    def run():
        try:
            res["out"] = fn()
        except BaseException as e:      # noqa
            res["out"] = "harness:" + type(e).__name__
    th = threading.Thread(target=run, name="verif-ctl", daemon=True)
    th.start()
    return th, res


def _report(ctx, scenario, findings, where):
    """one signature per scenario (call site + command / forced overlap): the symptoms - which may vary with timing -
    go into the detail, so a known finding is keyed by the history that fails, not by how it fails"""
    if findings:
        ctx.viol(f"{scenario}:protocol-violated", {**where, "symptoms": sorted({s for s, _ in findings}),
                                                   "details": [d for _, d in findings][:4]})
    return not findings


def _drive_to_end(h, mid, limit=4):
    """after a scenario: resume until the replication has ended (a usable simulator must allow that)"""
    for _ in range(limit):
        if not h.wait_quiescent(20):
            return False
        s = h.snapshot()
        if (s["run_state"], s["replication_state"]) in (("STOPPED", "STARTED"), ("INITIALIZED", "INITIALIZED")):
            h.cmd("start")
        else:
            break
    return h.wait_quiescent(20)


def _run_gate(case, ctx):
    import copy
    from vlib.simharness import Harness, Gate, compare_traces
    from vlib.protocol import ProtoRef
    from vlib import overlap
    prog = PROGS[case["clock"]]
    mid = prog["mid"]
    start, warm, end = _times(prog)
    x, starter = case["x"], case["starter"]
    scen = f"gate:{x}@running({starter})"
    where = {"clock": case["clock"], "prefix": case["prefix"], "starter": starter, "x": x}
    pref = ProtoRef(prog, mid)
    h = Harness(prog)
    try:
        pref.apply("initialize")
        h.cmd("initialize")
        for c in case["prefix"]:
            pref.apply(c)
            _issue(h, c, mid)
            if not h.wait_quiescent(20):
                ctx.viol("hang:no-quiescence-in-prefix", where)
                return
        if pref.state not in ("II", "SS") or not pref.ref.can_start():
            return
        if starter == "run_up_to_including":
            from vlib.refdevs import tnum
            if tnum(prog, mid) < pref.ref.clock:
                return
        pstop = copy.deepcopy(pref)
        exp = pref.apply(starter)
        if not exp["seg"]:
            return
        first_h, first_n, first_t = len(h.hlog), len(h.nlog), len(h.timeline)
        h.pause_gate = Gate()
        h.pause_at = h.exec_count + 1
        if _issue(h, starter, mid) != "ok" or not h.pause_gate.reached.wait(10.0):
            h.pause_gate.open.set()
            ctx.viol(f"{scen}:run-did-not-reach-the-gate", where)
            return
        ctx.count("commands_against_a_parked_run")
        s0 = h.snapshot()
        n0 = len(h.nlog)
        ctx.seen("command_x_state", f"{x}@RUNNING")
        if x in ("initialize", "start", "step", "run_up_to", "run_up_to_including"):
            out = _issue(h, x, mid)
            s1 = h.snapshot()
            if out == "ok":
                ctx.viol(f"{scen}:accepted-while-running", {**where, "after": s1})
            elif out != "DSOLError":
                ctx.viol(f"{scen}:refused-with-{out}", where)
            elif s1 != s0 or len(h.nlog) != n0:
                ctx.viol(f"{scen}:refused-command-changed-something", {**where, "before": s0, "after": s1, "notifications": h.nlog[n0:]})
            h.pause_at = None
            h.pause_gate.open.set()
            if not h.wait_quiescent(20):
                ctx.viol(f"{scen}:hang", {**where, "snapshot": h.snapshot()})
                return
            # the run in progress is unaffected: same segment, state, clock, notifications as without the command
            snap = h.snapshot()
            if not compare_traces(ctx, h.trace(first_h), exp["seg"], where, what=f"{scen}:continuation"):
                return
            if _abstract(snap) != pref.state or snap["clock"] != num(pref.ref.clock):
                ctx.viol(f"{scen}:continuation-state-or-clock", {**where, "snapshot": snap, "want_state": pref.state, "want_clock": num(pref.ref.clock)})
                return
            got_notes = [n[0] for n in h.nlog[first_n:] if n[0] != "TIME_CHANGED_EVENT"]
            if got_notes != exp["notes"]:
                ctx.viol(f"{scen}:continuation-notifications", {**where, "got": got_notes, "want": exp["notes"]})
                return
            ctx.nontrivial = True
            return
        if x in ("stop", "cleanup"):
            th, res = _in_thread(lambda: h.cmd(x))
            t0 = time.time()
            while h.sim.run_state.name not in ("STOPPING", "NOT_INITIALIZED") and th.is_alive() and time.time() - t0 < 5:
                time.sleep(0.0002)
            h.pause_at = None
            h.pause_gate.open.set()
            th.join(20)
            out = res.get("out")
        else:
            out = h.cmd("end_replication")
            h.pause_at = None
            h.pause_gate.open.set()
        if out != "ok":
            ctx.viol(f"{scen}:legal-command-refused:{out}", where)
            return
        if not h.wait_quiescent(20):
            ctx.viol(f"{scen}:hang", {**where, "snapshot": h.snapshot()})
            return
        snap = h.snapshot()
        if x == "stop":
            seg = pstop.ref.run(bound=None if starter == "start" else __import__("vlib.refdevs", fromlist=["tnum"]).tnum(prog, mid), stop_after=1)
            want = [(t, c) for t, c, _ in seg if t != "__warmup__"]
            if not compare_traces(ctx, h.trace(first_h), want, where, what=f"{scen}:segment"):
                return
            wstate = "EE" if pstop.ref.state == "ENDED" else "SS"
            if _abstract(snap) != wstate:
                ctx.viol(f"{scen}:state:{_abstract(snap)}", {**where, "snapshot": snap, "want": wstate})
                return
            notes = [n[0] for n in h.nlog[n0:]]
            if "STOPPING_EVENT" not in notes or "STOP_EVENT" not in notes:
                ctx.viol(f"{scen}:notifications", {**where, "got": notes})
                return
        elif x == "cleanup":
            if _abstract(snap) != "NI" or snap["worker"] not in ("none", "dead") or h.sim.has_listeners():
                ctx.viol(f"{scen}:state:{_abstract(snap)}", {**where, "snapshot": snap, "listeners": h.sim.has_listeners()})
                return
        else:
            findings, abstract = overlap.judge(h, warm, end, None, program_changed=True)
            if abstract != "EE":
                findings.append((f"state:{abstract}", {"snapshot": snap}))
            late = [r for r in h.hlog[first_h:] if r[1] > num(end)]
            if late:
                findings.append(("event-later-than-the-replication-end-executed", {"events": late[:4]}))
            if not _report(ctx, scen, findings, where):
                return
        from vlib.simharness import check_clock_monotone
        if not check_clock_monotone(h, ctx, {**where, "scenario": scen}, sig=f"{scen}:clock-moved-backwards"):
            return
        for wk in h.workers:
            if wk is not (h.worker() if _abstract(snap) in ("II", "SS") else None):
                wk.join(5.0)
                if wk.is_alive():
                    ctx.viol(f"{scen}:run-thread-did-not-terminate", where)
                    return
        ctx.nontrivial = True
    finally:
        h.cleanup()


def _run_inside(case, ctx):
    from vlib.simharness import Harness, check_clock_monotone
    from vlib.refdevs import Ref
    from vlib import overlap
    import copy
    prog = copy.deepcopy(PROGS[case["clock"]])
    mid = prog["mid"]
    start, warm, end = _times(prog)
    site, x, starter = case["site"], case["x"], case["starter"]
    scen = f"inside:{x}@{site}"
    where = {"clock": case["clock"], "site": site, "x": x, "starter": starter}
    ref = Ref(prog)
    ref.initialize()
    ref.run()
    h = Harness(prog)
    done = {"n": 0, "out": None, "before": None, "after": None, "thread": None}

    def inner():
        if done["n"]:
            return
        done["n"] += 1
        done["before"] = h.snapshot()
        done["thread"] = threading.current_thread().name
        n0 = len(h.nlog)
        done["out"] = _issue(h, x, mid)
        done["after"] = h.snapshot()
        done["notes"] = [n[0] for n in h.nlog[n0:]]

    try:
        if site == "handler":
            prog["handlers"].setdefault("a2" if "a2" in [a[3] for a in prog["init"]] else prog["init"][1][3], []).insert(0, ["cmd"])
            h.on_action = lambda model, a, parent: inner() if a[0] == "cmd" else None
        else:
            h.on_notify = lambda name, event: inner() if name == site else None
        h.cmd("initialize")
        if site == "STOPPING_EVENT":
            o, so, parked = h.start_and_pause_after(2)
        else:
            _issue(h, starter, mid)
        if not h.wait_quiescent(30):
            ctx.viol(f"{scen}:hang", {**where, "snapshot": h.snapshot()})
            return
        if site == "END_REPLICATION_EVENT" and not done["n"]:
            _drive_to_end(h, mid)
        if not done["n"]:
            _drive_to_end(h, mid)
        if not done["n"]:
            return
        ctx.count("commands_from_inside")
        ctx.seen("inside_sites", f"{x}@{site}:{done['before']['run_state']}/{done['before']['replication_state']}:{'ok' if done['out'] == 'ok' else 'refused'}")
        b = done["before"]
        running = b["run_state"] in ("STARTING", "STARTED")
        ended = b["replication_state"] in ("ENDING", "ENDED")
        out = done["out"]
        changed = x in ("initialize", "cleanup", "end_replication") and out == "ok"
        # what the table prescribes for the state the command met
        if x in ("initialize", "start", "step", "run_up_to", "run_up_to_including"):
            must_refuse = running or (x != "initialize" and ended)
        elif x == "stop":
            must_refuse = not running
        elif x == "end_replication":
            must_refuse = b["replication_state"] == "ENDED"
        else:
            must_refuse = False
        findings = []
        if must_refuse:
            if out == "ok":
                findings.append(("accepted-where-the-protocol-refuses", {"met": b}))
            elif out != "DSOLError":
                findings.append((f"refused-with-{out}", {"met": b}))
            elif done["after"] != b or done["notes"]:
                findings.append(("refused-command-changed-something", {"before": b, "after": done["after"], "notifications": done["notes"]}))
        elif out not in ("ok",) and x in ("stop", "end_replication", "cleanup"):
            findings.append((f"legal-command-refused:{out}", {"met": b}))
        _drive_to_end(h, mid) if not changed or x == "end_replication" else h.wait_quiescent(20)
        f2, abstract = overlap.judge(h, warm, end, ref.trace, program_changed=changed or x == "cleanup")
        findings += f2
        if x == "cleanup" and out == "ok" and abstract not in ("NI", None):
            findings.append((f"state-after-cleanup:{abstract}", {}))
        if not _report(ctx, scen, findings, where):
            return
        if not check_clock_monotone(h, ctx, {**where, "scenario": scen}, sig=f"{scen}:clock-moved-backwards"):
            return
        ctx.nontrivial = True
    finally:
        h.cleanup()


def _run_ovl(case, ctx):
    from vlib.simharness import Harness, Gate, check_clock_monotone
    from vlib.refdevs import Ref
    from vlib import overlap
    import copy
    prog = copy.deepcopy(PROGS[case["clock"]])
    mid = prog["mid"]
    start, warm, end = _times(prog)
    sc = case["scenario"]
    scen = f"ovl:{sc}"
    where = {"clock": case["clock"], "scenario": sc}
    ref = Ref(prog)
    ref.initialize()
    ref.run()
    n_events = len([1 for t, _, _ in ref.trace if not t.startswith("__")])
    h = Harness(prog)
    flags = {"end_seen": threading.Event(), "in_window": threading.Event(), "release": threading.Event(), "armed": True}
    changed = False
    try:
        h.cmd("initialize")
        if sc == "stop-vs-natural-end":
            # stop() passes its check while the run is in its last event, is held in its own STOPPING notification until
            # the run thread has ended the replication, and only then writes its state
            def on_notify(name, event):
                if name == "END_REPLICATION_EVENT":
                    flags["end_seen"].set()
                if name == "STOPPING_EVENT" and flags["armed"]:
                    flags["armed"] = False
                    flags["in_window"].set()
                    flags["end_seen"].wait(5.0)
            h.on_notify = on_notify
            h.pause_gate = Gate()
            h.pause_at = h.exec_count + n_events
            h.cmd("start")
            if not h.pause_gate.reached.wait(10.0):
                ctx.viol(f"{scen}:setup-failed", where)
                return
            th, res = _in_thread(lambda: h.cmd("stop"))
            flags["in_window"].wait(5.0)
            h.pause_at = None
            h.pause_gate.open.set()
            th.join(20)
        elif sc in ("start-during-stopping", "step-during-stopping", "bounded-run-during-stopping"):
            # the STOP notification is delivered by the run thread inside its STOPPING window: hold it there while the
            # caller issues the next start / step
            def on_notify(name, event):
                if name == "STOP_EVENT" and flags["armed"]:
                    flags["armed"] = False
                    flags["in_window"].set()
                    flags["release"].wait(5.0)
            h.on_notify = on_notify
            h.pause_gate = Gate()
            h.pause_at = h.exec_count + 2
            h.cmd("start")
            h.pause_gate.reached.wait(10.0)
            th, res = _in_thread(lambda: h.cmd("stop"))
            t0 = time.time()
            while h.sim.run_state.name != "STOPPING" and time.time() - t0 < 5:
                time.sleep(0.0002)
            h.pause_at = None
            h.pause_gate.open.set()
            flags["in_window"].wait(5.0)
            nxt = {"start-during-stopping": "start", "step-during-stopping": "step", "bounded-run-during-stopping": "run_up_to_including"}[sc]
            th2, res2 = _in_thread(lambda: _issue(h, nxt, prog["rep"]["length"] if nxt.startswith("run") else None))
            t0 = time.time()
            while h.sim.run_state.name not in ("STARTING", "STARTED") and th2.is_alive() and time.time() - t0 < 2:
                time.sleep(0.0002)
            flags["release"].set()
            th.join(20)
            th2.join(20)
        elif sc == "end_replication-in-bounded-run":
            prog["handlers"].setdefault(prog["init"][1][3], []).insert(0, ["cmd"])
            h.on_action = lambda model, a, parent: h.cmd("end_replication") if a[0] == "cmd" else None
            changed = True
            h.cmd("run_up_to_including", mid)
        elif sc == "stop-then-start-fast":
            h.start_and_pause_after(1)
            h.cmd("start")
        elif sc == "rapid-start-stop":
            for _ in range(12):
                h.cmd("start")
                h.cmd("stop")
        ctx.count("forced_overlaps")
        if not h.wait_quiescent(30):
            ctx.viol(f"{scen}:hang", {**where, "snapshot": h.snapshot()})
            return
        findings, abstract = overlap.judge(h, warm, end, ref.trace, program_changed=changed)
        first_state = abstract
        if abstract in ("SS", "II") and not changed:
            _drive_to_end(h, mid)
            f2, abstract = overlap.judge(h, warm, end, ref.trace, program_changed=changed)
            findings = findings + [f for f in f2 if f[0] not in {x[0] for x in findings}]
            if abstract != "EE":
                findings.append((f"cannot-be-driven-to-the-end:{abstract}", {"snapshot": h.snapshot()}))
        ctx.seen("overlap_outcomes", f"{sc}:{first_state}->{abstract}")
        if not _report(ctx, scen, findings, where):
            return
        if not check_clock_monotone(h, ctx, {**where, "scenario": scen}, sig=f"{scen}:clock-moved-backwards"):
            return
        ctx.nontrivial = True
    finally:
        h.cleanup()


# ------------------------------------------------------------------------------------------- storms with delay injection (M5)
_INJ = {"on": False, "points": {}, "hits": None, "installed": False}


def _install_injector():
    if _INJ["installed"] or not hasattr(sys, "monitoring"):
        return _INJ["installed"]
    from pydsol.core import simulator as S
    mon = sys.monitoring
    tool = mon.PROFILER_ID
    try:
        mon.use_tool_id(tool, "verif-delay-injector")
    except ValueError:
        return False
    funcs = [S.SimulatorWorkerThread.run, S.Simulator._start_impl, S.Simulator._stop_impl, S.Simulator.stop, S.Simulator.step,
             S.Simulator.cleanup, S.Simulator.initialize, S.Simulator.end_replication, S.DEVSSimulator._run, S.DEVSSimulator.initialize]
    codes = [f.__code__ for f in funcs]
    lines = []
    for c in codes:
        for _, _, ln in c.co_lines():
            if ln is not None and ln > c.co_firstlineno:
                lines.append((c.co_name, ln))
    _INJ["lines"] = sorted(set(lines))

    def cb(code, line):
        if not _INJ["on"]:
            return
        d = _INJ["points"].get((code.co_name, line))
        if d is not None:
            _INJ["hits"].add((threading.current_thread().name.split("-")[0], code.co_name, line))
            time.sleep(d)
    mon.register_callback(tool, mon.events.LINE, cb)
    for c in codes:
        mon.set_local_events(tool, c, mon.events.LINE)
    _INJ["installed"] = True
    return True


def _run_storm(case, ctx):
    import random
    from vlib.simharness import Harness, check_clock_monotone
    from vlib.refdevs import Ref
    from vlib import overlap
    prog = PROGS[case["clock"]]
    mid = prog["mid"]
    start, warm, end = _times(prog)
    where = {"clock": case["clock"], "threads": case["threads"], "commands": case["commands"], "points": case["points"]}
    ok = _install_injector()
    prng = random.Random(case["pseed"])
    if ok:
        pts = prng.sample(_INJ["lines"], min(case["points"], len(_INJ["lines"])))
        _INJ["points"] = {p: d for p, d in zip(pts, case["delays"])}
        _INJ["hits"] = set()
    h = Harness(prog)
    changed = any(c in ("initialize", "cleanup", "end_replication") for c in case["commands"])
    try:
        h.cmd("initialize")
        _INJ["on"] = ok
        cmds = list(zip(case["commands"], case["gaps"]))

        def controller(part):
            for c, gap in part:
                if c == "initialize":
                    continue        # re-initialising from a second controller is a model error, not a protocol subject
                _issue(h, c, mid)
                if gap:
                    time.sleep(gap)
        if case["threads"] == 1:
            controller(cmds)
        else:
            a = _in_thread(lambda: controller(cmds[0::2]))
            b = _in_thread(lambda: controller(cmds[1::2]))
            a[0].join(120)
            b[0].join(120)
        _INJ["on"] = False
        ctx.count("storms")
        if not h.wait_quiescent(30):
            ctx.viol("storm:hang", {**where, "snapshot": h.snapshot()})
            return
        if ok:
            for hit in _INJ["hits"]:
                ctx.seen("injection_points_hit", f"{hit[0]}:{hit[1]}:{hit[2]}")
            ctx.count("delay_injections_points_hit", len(_INJ["hits"]))
        ref = Ref(prog)
        ref.initialize()
        ref.run()
        # which replication's trace to compare: only when the storm never replaced the program state
        findings, abstract = overlap.judge(h, warm, end, ref.trace if not changed else None, program_changed=changed)
        ctx.seen("storm_final_states", str(abstract))
        # storms hit the run thread's windows at random: symptoms are reported in coarse classes (the deterministic
        # families above identify the individual mechanisms)
        coarse = []
        for sig, detail in findings:
            if sig.startswith("stream:"):
                sig = "notification-stream-malformed"
            elif sig.startswith("final-state:") or sig.startswith("run-thread-"):
                sig = "inconsistent-final-state"
            coarse.append((sig, {**(detail or {}), "fine": sig}))
        if not _report(ctx, "storm", coarse, where):
            return
        if not check_clock_monotone(h, ctx, {**where, "scenario": "storm"}, sig="storm:clock-moved-backwards"):
            return
        ctx.nontrivial = True
    finally:
        _INJ["on"] = False
        h.cleanup()
