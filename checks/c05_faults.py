"""
C05 - fault containment: a failing handler never loses, duplicates or reorders events.
Monitor: fault enumeration on generated model programs.  For every program each single executed event is
made to fail in turn (exhaustive singles), then pairs and random subsets; every fault set is run under the
log-and-continue, warn-and-continue and warn-and-pause strategies with start, bounded runs, step-only and
mixed drivers on the real simulator, and the executed trace / states / escaping exceptions are compared
with the reference interpreter.
"""
from vlib.simharness import num
import os
import sys

ID = "C05"
LEVEL = "fault_enumeration"
TECHNIQUE = "runtime monitor with fault injection: exhaustive single (and sampled multiple) failing-handler sets per generated program, trace/state vs reference DEVS interpreter"
RULE = ("program p = i // 16 (4-12 executed events, float/int/Duration clocks); variants 0-11 inject a fault into the "
        "v-th executed event (all singles), variants 12-15 inject pairs / random subsets; the raise position inside "
        "the handler's action list varies (before / between / after its scheduling actions); strategy in {log, warn, "
        "pause} (set plain or with an explicit log level, switched by handlers, incl. refused switches to non-existent strategies) x driver in {start, bounded, step, mixed} x {fresh simulator, initialised once before, initialised and cleaned up before}; non-trivial = at least one injected fault was reached and "
        "events were still pending when it fired; distinct = canonical (program, fault set, strategy, driver) hash")
RULE += '; 15% of the cases give every event a keyword argument whose repr()/str() raise; a fifth set the strategy through an IntEnum mirror of the constants'
RULE += '; 3 (thorough 12) cases run 2400-4000 events of which every second fails, in one uninterrupted run under a continue strategy'
ASSUMPTIONS = ["WARN_AND_END / WARN_AND_EXIT are outside the statement",
               "a failing handler raises RuntimeError, KeyError, a BaseException subclass that is not an Exception, or SystemExit",
               "a failing step may return normally or raise a DSOLError that reports the failure; any other escaping exception type is a violation",
               "'as if the failing handler had returned normally' = the handler's actions before the raise took effect, those after it did not",
               "a model-defined event class with its own execute() lets Exception subclasses out unwrapped; aborts that are not Exception subclasses (SystemExit, ...) are wrapped like the library's own execute() does - what an unwrapped one does to the run thread is not judged"]

VARIANTS = 16


def plan(tier):
    n = 700 * VARIANTS if tier == "quick" else 30000 * VARIANTS
    return {"cases": n, "shards": 12, "timeout": 900 if tier == "quick" else 5400, "min_nontrivial": 300,
            "min": {"faults_reached": 3000, "segments_judged": 5000, "failing_steps": 150}}


def gen_case(rng, tier, i):
    from vlib import base
    from vlib.proggen import gen_program
    from vlib.refdevs import Ref, WARMUP
    nstop = 4 if tier == "quick" else 12
    nrec = 9 if tier == "quick" else 45
    nmany = 3 if tier == "quick" else 12
    if i < nmany:
        # very many failing handlers in ONE uninterrupted run under a continue strategy (every second of 3000 events fails):
        # the thousandth failure is contained like the first
        clock = ["float", "int", "duration"][i % 3]
        return {"fam": "many", "clock": clock, "strategy": ["log", "warn", "log"][i % 3], "n": [3000, 2400, 4000][(i // 3) % 3],
                "driver": ["start", "run_up_to_including"][(i // 3) % 2]}
    if plan(tier)["cases"] - nstop - nrec <= i < plan(tier)["cases"] - nstop:
        # a recurring, argument-less handler (a 'tick' that re-schedules itself) failing more than once: every failure is
        # a failure of its own, however alike the reports look
        j = i - (plan(tier)["cases"] - nstop - nrec)
        clock = ["float", "duration", "int"][j % 3]
        fails = [[2, 4], [1, 2], [3, 3 + 1 + j % 3], [2, 5, 6]][(j // 3) % 4]
        return {"fam": "recurring", "clock": clock, "strategy": ["pause", "pause", "log", "warn"][(j // 3) % 4], "fails": fails}
    if i >= plan(tier)["cases"] - nstop:
        # a handler asks for a stop and then fails: under the continue strategies this is 'as if it had returned normally',
        # so the stop stands (each case costs the library's 1 s self-wait of stop() on the run thread)
        j = i - (plan(tier)["cases"] - nstop)
        clock = ["float", "duration", "int"][j % 3]
        lit = (lambda v: [float(v), "s"]) if clock == "duration" else (lambda v: int(v) if clock == "int" else float(v))
        k = 2 + j % 4
        return {"fam": "stop_then_fail", "strategy": ["log", "warn"][j % 2], "at": k, "kind": ["exc", "key", "exc", "base"][j % 4],
                "prog": {"clock": clock, "rep": {"start": lit(0), "warmup": lit(0), "length": lit(20)},
                         "init": [["abs", lit(t), 5, f"a{t}"] for t in range(1, 9)], "handlers": {f"a{k}": [["stopfail"]]}}}
    pidx, v = divmod(i, VARIANTS)
    seed = int(os.environ.get("VERIF_SEED", "0") or 0)
    prng = base.rng_for("c05-program", seed, tier, pidx)
    clock = ["float", "int", "duration"][pidx % 3]
    prog = gen_program(prng, clock=clock, n_events=prng.randint(4, 12), with_bad=False, with_cancel=prng.random() < 0.4, bigint=True)
    ref = Ref(prog)
    ref.initialize()
    ref.run()
    order = [t for t, _, _ in ref.trace if t != WARMUP]
    if not order:
        faults = []
    elif v < 12:
        faults = [order[v % len(order)]]
    elif v < 14:
        faults = rng.sample(order, min(2, len(order)))
    else:
        faults = [t for t in order if rng.random() < 0.4] or [order[0]]
    fl = []
    for t in faults:
        nact = len(prog["handlers"].get(t, []))
        fl.append([t, rng.randint(0, nact), rng.choice(["exc", "exc", "key", "base", "exit", "bare", "assert", "chained"])])
    strategy = ["log", "warn", "pause"][(i // VARIANTS + v) % 3] if v < 12 else rng.choice(["log", "warn", "pause"])
    driver = rng.choice(["start", "start", "bounded", "step", "mixed"])
    # the strategy may be changed by the model while it runs: the one in force when a handler fails decides
    switches = []
    if v >= 8 and order:
        for t in rng.sample(order, min(len(order), rng.randint(1, 2))):
            switches.append([t, rng.choice(["log", "warn", "pause", "bad:zero", "bad:name", "bad:none", "bad:big", "bad:neg"])])
    cuts = sorted(rng.sample(range(0, 60), 3))
    return {"prog": prog, "faults": fl, "strategy": strategy, "driver": driver, "cuts": cuts, "nsteps": rng.randint(1, 6),
            "switches": switches, "unprintable": rng.random() < 0.15, "strategy_call": rng.choice(["plain", "plain", "level_kw", "level_pos", "intenum"])}


def shard_setup(tier, ctx):
    # the library prints a traceback per injected fault: keep the shard logs small
    sink = open(os.devnull, "w")
    sys.stdout = sink
    sys.stderr = sink


def shard_teardown(tier, ctx):
    from vlib import simharness
    simharness.cleanup_all()
    sys.stdout = sys.__stdout__
    sys.stderr = sys.__stderr__


def _with_faults(prog, faults, switches=()):
    import copy
    p = copy.deepcopy(prog)
    for tag, strat in switches:
        if strat.startswith("bad:"):
            p["handlers"].setdefault(tag, []).insert(0, ["badstrategy", strat[4:], tag.endswith(("1", "3", "5", "7", "9"))])
        else:
            p["handlers"].setdefault(tag, []).insert(0, ["strategy", strat])
    for tag, pos, *rest in faults:
        kind = rest[0] if rest else "exc"
        acts = p["handlers"].setdefault(tag, [])
        acts.insert(min(pos, len(acts)), ["raise", kind])
    return p


def _stop_then_fail(case, ctx):
    from vlib.simharness import Harness, InjectedAbort
    prog = dict(case["prog"], strategy=case["strategy"])
    h = Harness(prog)
    res = {}

    def on_action(model, a, parent):
        res["stop"] = h.cmd("stop")
        if case["kind"] == "base":
            raise InjectedAbort("injected handler fault after stop()")
        if case["kind"] == "key":
            raise KeyError(parent)
        raise RuntimeError("injected handler fault after stop()")
    h.on_action = on_action
    where = {"clock": prog["clock"], "strategy": case["strategy"], "handler_at": case["at"], "fault": case["kind"]}
    try:
        if h.cmd("initialize") != "ok" or h.cmd("start") != "ok" or not h.wait_quiescent(30):
            ctx.viol("hang:stop-then-fail", {**where, "snapshot": h.snapshot()})
            return
        ctx.count("handlers_that_stop_and_then_fail")
        times = [c for _, c in h.trace()]
        snap = h.snapshot()
        if res.get("stop") != "ok":
            ctx.viol(f"stop-of-a-running-simulator-refused:{res.get('stop')}", where)
            return
        if times != list(range(1, case["at"] + 1)) or snap["run_state"] != "STOPPED":
            ctx.viol("stop-requested-by-a-failing-handler-was-lost", {**where, "executed_times": times, "snapshot": snap})
            return
        if h.cmd("start") != "ok" or not h.wait_quiescent(30) or [c for _, c in h.trace()] != list(range(1, 9)):
            ctx.viol("not-ended-at-the-end", {**where, "executed_times": [c for _, c in h.trace()], "snapshot": h.snapshot()})
            return
        ctx.nontrivial = True
    finally:
        h.cleanup()


def _recurring(case, ctx):
    from vlib.simharness import Harness, time_value
    clock = case["clock"]
    lit = (lambda v: [float(v), "s"]) if clock == "duration" else (lambda v: int(v) if clock == "int" else float(v))
    prog = {"clock": clock, "rep": {"start": lit(0), "warmup": lit(0), "length": lit(20)}, "init": [], "handlers": {}, "strategy": case["strategy"]}
    h = Harness(prog)
    ticks = []

    def tick(model):
        sim = model.simulator
        ticks.append(float(sim.simulator_time))
        if len(ticks) < 8:
            sim.schedule_event_rel(time_value(prog, lit(1)), model, "tick")
        if len(ticks) in case["fails"]:
            raise RuntimeError("tick failed")       # the same report every time
    setattr(type(h.model), "tick", tick)
    h.on_construct = lambda model: model.simulator.schedule_event_rel(time_value(prog, lit(1)), model, "tick")
    where = {"clock": clock, "strategy": case["strategy"], "failing_occurrences": case["fails"]}
    try:
        if h.cmd("initialize") != "ok":
            ctx.viol("initialize-raises", where)
            return
        ctx.count("recurring_handler_cases")
        stops = sorted(set(case["fails"])) if case["strategy"] == "pause" else []
        for want_n in stops + [8]:
            if h.cmd("start") != "ok" or not h.wait_quiescent(30):
                ctx.viol("hang:recurring", {**where, "snapshot": h.snapshot()})
                return
            snap = h.snapshot()
            ended = want_n == 8 and (not stops or 8 not in stops)
            if len(ticks) != want_n or (snap["run_state"] == "ENDED") != ended:
                ctx.viol("segment-pause:event-executed-that-should-not" if len(ticks) > want_n else "segment-pause:event-lost",
                         {**where, "executed_occurrences": len(ticks), "expected": want_n, "snapshot": snap})
                return
        if ticks != [float(k) for k in range(1, 9)]:
            ctx.viol("whole-run:events-lost-or-repeated", {**where, "tick_times": ticks})
            return
        ctx.nontrivial = True
    finally:
        h.cleanup()


def _many(case, ctx):
    from vlib.simharness import Harness
    clock, n = case["clock"], case["n"]
    lit = (lambda v: [float(v), "s"]) if clock == "duration" else (lambda v: int(v) if clock == "int" else float(v))
    prog = {"clock": clock, "rep": {"start": lit(0), "warmup": lit(0), "length": lit(n + 10)}, "strategy": case["strategy"],
            "init": [["abs", lit(t), 5, f"m{t}"] for t in range(1, n + 1)], "handlers": {f"m{t}": [["raise", "exc"]] for t in range(1, n + 1, 2)}}
    h = Harness(prog)
    h.max_exec = 10 * n
    where = {"clock": clock, "strategy": case["strategy"], "events": n, "failing": (n + 1) // 2, "driver": case["driver"]}
    try:
        if h.cmd("initialize") != "ok":
            ctx.viol("initialize-raises", where)
            return
        out = h.cmd("start") if case["driver"] == "start" else h.cmd("run_up_to_including", lit(n + 10))
        if out != "ok" or not h.wait_quiescent(120):
            ctx.viol("hang:many-faults", {**where, "outcome": out, "snapshot": h.snapshot()})
            return
        ctx.count("runs_with_more_than_a_thousand_failing_handlers")
        times = [c for _, c in h.trace()]
        snap = h.snapshot()
        if times != [float(t) for t in range(1, n + 1)]:
            first_bad = next((k for k, (a, b) in enumerate(zip(times, range(1, n + 1))) if a != b), min(len(times), n))
            ctx.viol(f"segment-{case['strategy']}:event-lost", {**where, "executed": len(times), "first_difference_at_event": first_bad, "snapshot": snap})
            return
        if snap["run_state"] != "ENDED" or snap["clock"] != n + 10:
            ctx.viol("not-ended-at-the-end", {**where, "snapshot": snap})
            return
        ctx.nontrivial = True
    finally:
        h.cleanup()


def run_case(case, ctx):
    if case.get("fam") == "many":
        return _many(case, ctx)
    if case.get("fam") == "stop_then_fail":
        return _stop_then_fail(case, ctx)
    if case.get("fam") == "recurring":
        return _recurring(case, ctx)
    if sum(case["cuts"]) % 5 == 1:
        # the process treats warnings as errors (python -W error / PYTHONWARNINGS=error, as test and CI runs often do): how a
        # failure is reported must not depend on it
        import warnings
        # (every library module is imported first: with warnings as errors the compile-time SyntaxWarning of a docstring in
        # statistics.py - an invalid escape sequence - would abort the first import; that is about importing, not about faults)
        import pydsol.core.statistics, pydsol.core.distributions, pydsol.core.units, pydsol.core.experiment, pydsol.core.parameters, pydsol.core.streams  # noqa
        ctx.count("cases_run_with_warnings_as_errors")
        with warnings.catch_warnings():
            warnings.simplefilter("error")
            return _run_main(case, ctx)
    if sum(case["cuts"]) % 5 == 2:
        # the user has switched the library's loggers to DEBUG (handlers silenced here): containment does not depend on the log level
        import logging
        from vlib.base import library_loggers_at
        ctx.count("cases_with_the_library_loggers_at_DEBUG")
        with library_loggers_at(logging.DEBUG):
            return _run_main(case, ctx)
    return _run_main(case, ctx)


def _run_main(case, ctx):
    from vlib.simharness import Harness, compare_traces, check_clock_monotone
    from vlib.refdevs import Ref, WARMUP
    prog = _with_faults(case["prog"], case["faults"], case.get("switches", ()))
    prog["strategy"] = case["strategy"]
    prog["strategy_call"] = case.get("strategy_call", "plain")
    if (sum(case["cuts"]) + case["nsteps"]) % 6 == 3:
        prog["plain_replication"] = True      # the replication is a model-defined ReplicationInterface implementation (three times, no more)
        ctx.count("cases_with_a_model-defined_replication_object")
    if (sum(case["cuts"]) + case["nsteps"]) % 6 == 4:
        prog["unhashable_model"] = True       # the handlers' target object (the model) defines __eq__ and has no hash
        ctx.count("cases_with_an_unhashable_handler_target")
    if case.get("unprintable"):
        prog["payload"] = "unprintable"       # the failing (and every other) event carries an object whose repr()/str() raise
        ctx.count("cases_whose_events_carry_an_unprintable_object")
    where = {"clock": prog["clock"], "strategy": case["strategy"], "driver": case["driver"], "faults": case["faults"]}
    ref = Ref(prog)
    ref.initialize()
    h = Harness(prog)
    span = ref.end - ref.start
    pending_at_fault = [False]
    try:
        # the strategy is a setting of the simulator, chosen once: it is still in force in a later replication
        prelude = [None, None, None, "initialized-before", "initialized-and-cleaned-up-before"][(sum(case["cuts"]) + case["nsteps"]) % 5] \
            if "prelude" not in case else case["prelude"]
        if prelude:
            ctx.count("cases_with_an_earlier_initialisation")
            h.cmd("initialize")
            if prelude == "initialized-and-cleaned-up-before":
                h.cmd("cleanup")
            h.reset_logs()
            where["earlier"] = prelude
        if h.cmd("initialize") != "ok":
            ctx.viol("initialize-raises", where)
            return
        # command script for this driver
        script = []
        if case["driver"] == "bounded":
            for c in case["cuts"]:
                t = ref.start + (c % max(1, int(span)))
                script.append(("run_up_to_including", t))
        elif case["driver"] == "step":
            script += [("step", None)] * case["nsteps"]
        elif case["driver"] == "mixed":
            script += [("step", None), ("run_up_to", ref.start + (case["cuts"][0] % max(1, int(span)))), ("step", None)]
        guard = 0
        while guard < 80:
            guard += 1
            if script:
                name, arg = script.pop(0)
            else:
                name, arg = "start", None
            if not ref.can_start():
                break
            w = {**where, "command": [name, arg], "command_number": guard}
            first = len(h.hlog)
            before_faults = ref.faults
            if name == "step":
                seg = ref.step()
                out = h.cmd("step")
                if ref.faults > before_faults:
                    ctx.count("failing_steps")
                    if out not in ("ok", "DSOLError"):
                        ctx.viol(f"failing-step-escapes-as:{out}", w)
                        return
                elif out != "ok":
                    ctx.viol(f"legal-command-refused:step:{out}", w)
                    return
            else:
                if name != "start":
                    b = arg
                    lit = [float(b), "s"] if prog["clock"] == "duration" else (int(b) if prog["clock"] == "int" else float(b))
                    if b < ref.clock:
                        continue
                    seg = ref.run(bound=b, including=(name == "run_up_to_including"))
                    out = h.cmd(name, lit)
                else:
                    seg = ref.run()
                    out = h.cmd("start")
                if out != "ok":
                    ctx.viol(f"legal-command-refused:{name}:{out}", w)
                    return
            if ref.faults > before_faults:
                ctx.count("faults_reached", ref.faults - before_faults)
                if ref.pending:
                    pending_at_fault[0] = True
            if not h.wait_quiescent(20):
                ctx.viol("hang:segment-did-not-reach-quiescence", {**w, "snapshot": h.snapshot()})
                return
            ctx.count("segments_judged")
            snap = h.snapshot()
            got = h.trace(first)
            want = [(t, c) for t, c, _ in seg]
            if not compare_traces(ctx, got, want, w, what=f"segment-{case['strategy']}"):
                return
            if ref.state == "ENDED":
                if (snap["run_state"], snap["replication_state"]) != ("ENDED", "ENDED"):
                    ctx.viol("not-ended-at-the-end", {**w, "snapshot": snap})
                    return
            else:
                if (snap["run_state"], snap["replication_state"]) != ("STOPPED", "STARTED"):
                    ctx.viol(f"state-after-faulting-segment:{name}", {**w, "snapshot": snap})
                    return
                if snap["pending"] != len(ref.pending):
                    ctx.viol("pending-events-after-segment", {**w, "got": snap["pending"], "want": len(ref.pending)})
                    return
                if not (name == "step" and not seg) and snap["clock"] != num(ref.clock):
                    ctx.viol("clock-after-segment", {**w, "got": snap["clock"], "want": num(ref.clock)})
                    return
        if ref.state != "ENDED" and ref.can_start():
            ctx.viol("harness:did-not-finish", where)
            return
        full = [(t, c) for t, c, _ in ref.trace]
        if not compare_traces(ctx, h.trace(), full, where, what="whole-run"):
            return
        if not check_clock_monotone(h, ctx, where):
            return
        if h.bad_strategy_accepted:
            ctx.viol("non-existent-error-strategy-accepted", {**where, "calls": h.bad_strategy_accepted[:3]})
            return
        ctx.nontrivial = ref.faults > 0 and pending_at_fault[0]
        ctx.seen("strategy_driver", f"{case['strategy']}:{case['driver']}")
    finally:
        h.cleanup()
