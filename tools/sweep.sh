#!/bin/bash
# false-alarm hunt on the unchanged tree: every check, several seeds, both tiers; prints only non-zero exits
for seed in ${QSEEDS:-1 2 3 4 5 6 7 8}; do
  for id in C01 C02 C03 C04 C05 C06 C07 C08 C09 C10 C11 C12 C13 C14 C15 C16 C17 C18; do
    out=$(VERIF_SEED=$seed ./check $id quick 2>&1); rc=$?
    echo "seed=$seed $id quick rc=$rc $(echo "$out" | tail -1 | sed 's/.*evaluations/evaluations/')"
    if [ $rc -ne 0 ]; then echo "$out" | grep -v "^KNOWN" | head -20; fi
  done
done
for seed in ${TSEEDS:-11 12}; do
  for id in C01 C02 C03 C04 C05 C06 C08 C09 C10 C11 C12 C13 C14 C15 C16 C17 C18 C07; do
    out=$(VERIF_SEED=$seed ./check $id thorough 2>&1); rc=$?
    echo "seed=$seed $id thorough rc=$rc $(echo "$out" | tail -1 | sed 's/.*evaluations/evaluations/')"
    if [ $rc -ne 0 ]; then echo "$out" | grep -v "^KNOWN" | head -20; fi
  done
done
