#!/usr/bin/env python3
"""addfinding.py <prop> <status known|fixed> <signature> <commit|-> <what...>   (development-time only; checks never write this file)"""
import json, sys, os
p = os.path.join(os.path.dirname(os.path.dirname(os.path.abspath(__file__))), "known_findings.json")
d = json.load(open(p))
prop, status, sig, commit = sys.argv[1:5]
what = " ".join(sys.argv[5:])
e = {"property": prop, "status": status, "signature": sig, "commit": None if commit == "-" else commit, "what": what}
if status == "fixed":
    e["line"] = f"fixed: property={prop} {commit} {what}"
d["findings"] = [f for f in d["findings"] if not (f["property"] == prop and f["signature"] == sig)] + [e]
json.dump(d, open(p, "w"), indent=1)
print(e)
