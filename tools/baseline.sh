#!/bin/bash
# MANIFEST.hooks.baseline_off_cmd: the repository's own suite, exactly as in /root/.vp/BASELINE.json, with the
# verification guard OFF (no source hooks exist; the variable is unset anyway).  junit goes to .tmp/ (git-ignored).
ROOT="$(cd "$(dirname "$0")/.." && pwd)"
mkdir -p "$ROOT/.tmp"
cd "${VERIF_REPO:-/repo}" && env -u AVERBRAECK_PYDSOL_CORE_VERIF /venv/bin/python -m pytest -ra -q -p no:cacheprovider \
   --timeout=900 --continue-on-collection-errors --junitxml="$ROOT/.tmp/baseline.junit.xml" "$@"
