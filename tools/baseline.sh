#!/bin/bash
# run the repository's own suite with the verification guard OFF (MANIFEST.hooks.baseline_off_cmd)
cd "${VERIF_REPO:-/repo}" && env -u AVERBRAECK_PYDSOL_CORE_VERIF /venv/bin/python -m pytest -ra -q -p no:cacheprovider --timeout=900 --continue-on-collection-errors "$@"
