#!/usr/bin/env python3
"""print a python file without docstrings/blank lines (reading aid)"""
import ast,sys
src=open(sys.argv[1]).read()
lo=int(sys.argv[2]) if len(sys.argv)>2 else 1
hi=int(sys.argv[3]) if len(sys.argv)>3 else 10**9
tree=ast.parse(src)
lines=src.split('\n')
drop=set()
for node in ast.walk(tree):
    if isinstance(node,(ast.FunctionDef,ast.ClassDef,ast.Module)):
        b=node.body
        if b and isinstance(b[0],ast.Expr) and isinstance(getattr(b[0],'value',None),ast.Constant) and isinstance(b[0].value.value,str):
            for i in range(b[0].lineno,b[0].end_lineno+1): drop.add(i)
for i,l in enumerate(lines,1):
    if lo<=i<=hi and i not in drop and l.strip() and not l.strip().startswith('#'): print(f"{i}: {l}")
