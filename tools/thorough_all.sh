#!/bin/bash
for id in C01 C02 C03 C05 C06 C08 C09 C10 C11 C12 C13 C14 C15 C16 C17 C18 C07 C04; do
  echo "=== $id thorough $(date +%T)"; ./check $id thorough | grep -v "^KNOWN" | tail -4
done
