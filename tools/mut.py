"""scratch-copy mutant helper (development-time self-validation; copies live under /tmp and are removed)"""
import os, shutil, subprocess, sys, tempfile
sys.path.insert(0, os.path.dirname(os.path.abspath(__file__)))
from redit import sub as _sub

VERIF = os.path.dirname(os.path.dirname(os.path.abspath(__file__)))


class Mutant:
    def __init__(self, name):
        self.name = name

    def __enter__(self):
        self.dir = tempfile.mkdtemp(prefix=f"mut-{self.name}-", dir="/tmp")
        for d in ("src", "tests"):
            shutil.copytree(os.path.join("/repo", d), os.path.join(self.dir, d))
        for f in ("pyproject.toml",):
            if os.path.exists("/repo/" + f):
                shutil.copy("/repo/" + f, self.dir)
        return self

    def __exit__(self, *a):
        shutil.rmtree(self.dir, ignore_errors=True)

    def sub(self, fname, old, new, count=1):
        _sub(os.path.join(self.dir, "src/pydsol/core", fname), old, new, count)

    def patch(self, path):
        subprocess.run(["git", "apply", "--directory", "", path], cwd=self.dir, check=True)

    def tests(self, args=()):
        env = dict(os.environ, PYTHONPATH=os.path.join(self.dir, "src"), PYTHONDONTWRITEBYTECODE="1")
        env.pop("AVERBRAECK_PYDSOL_CORE_VERIF", None)
        r = subprocess.run(["/venv/bin/python", "-m", "pytest", "-q", "-x", "-p", "no:cacheprovider", "--timeout=900", *args],
                           cwd=self.dir, env=env, capture_output=True, text=True)
        tail = r.stdout.strip().splitlines()[-1] if r.stdout.strip() else r.stderr[-300:]
        print(f"[{self.name}] suite: {tail}")
        return r.returncode == 0

    def check(self, pid, tier="quick", seed=0, show=3):
        env = dict(os.environ, VERIF_REPO=self.dir, VERIF_SEED=str(seed))
        r = subprocess.run([os.path.join(VERIF, "check"), pid, tier], env=env, capture_output=True, text=True)
        lines = r.stdout.strip().splitlines()
        sigs = [l.strip() for l in lines if l.strip().startswith("signature=")]
        print(f"[{self.name}] {pid} {tier}: exit={r.returncode} {sigs[:show]} | {lines[-1] if lines else r.stderr[-300:]}")
        return r.returncode
