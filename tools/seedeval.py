#!/usr/bin/env python3
"""seedeval.py <ID> [tier]: confirm a sub-agent's seeded change (suite passes, demo fails with / passes without) and run the
property's check against a scratch copy of /repo with the patch applied; stores everything under /verif/seeded/<ID>/"""
import json, os, shutil, subprocess, sys
sys.path.insert(0, os.path.dirname(os.path.abspath(__file__)))
from mut import Mutant, VERIF

pid = sys.argv[1]
args = sys.argv[2:]
suffix = ""
if args and args[0].startswith("--round="):
    suffix = "-" + args[0].split("=", 1)[1]
    args = args[1:]
tiers = args or ["quick"]
wt = f"/tmp/wt-{pid}"
dst = os.path.join(VERIF, "seeded", pid + suffix)
os.makedirs(dst, exist_ok=True)
if os.path.exists(os.path.join(wt, "patch.diff")):
    shutil.copy(os.path.join(wt, "patch.diff"), dst)
    shutil.copy(os.path.join(wt, f"demo_{pid}.py"), dst)
patch = os.path.join(dst, "patch.diff")
demo = os.path.join(dst, f"demo_{pid}.py")


def run_demo(srcdir):
    env = dict(os.environ, PYTHONPATH=os.path.join(srcdir, "src"), PYTHONDONTWRITEBYTECODE="1")
    try:
        r = subprocess.run(["/venv/bin/python", "-B", demo], env=env, capture_output=True, text=True, timeout=300, cwd="/tmp")
        return r.returncode, (r.stdout + r.stderr)[-600:]
    except subprocess.TimeoutExpired:
        return "timeout", ""

meta = {"property": pid, "patch": "patch.diff", "demonstration": f"demo_{pid}.py"}
with Mutant("seed-" + pid) as m:
    subprocess.run(["git", "apply", "--whitespace=nowarn", patch], cwd=m.dir, check=True)
    meta["suite_passes_with_change"] = m.tests()
    rc1, out1 = run_demo(m.dir)
    rc0, out0 = run_demo("/repo")
    meta["demo_exit_with_change"] = rc1
    meta["demo_exit_without_change"] = rc0
    print(f"[{pid}] demo with change: exit {rc1}; without: exit {rc0}")
    meta["checks"] = {}
    for tier in tiers:
        env = dict(os.environ, VERIF_REPO=m.dir, VERIF_SEED="0")
        r = subprocess.run([os.path.join(VERIF, "check"), pid, tier], env=env, capture_output=True, text=True)
        lines = r.stdout.strip().splitlines()
        sigs = sorted({l.strip()[len("signature="):].split(" count=")[0] for l in lines if l.strip().startswith("signature=")})
        meta["checks"][tier] = {"exit": r.returncode, "unlisted_signatures": sigs[:12], "summary": lines[-1] if lines else ""}
        print(f"[{pid}] check {tier}: exit={r.returncode} {sigs[:5]}")
        if r.returncode == 1:
            break
meta["ran"] = "patch applied with `git apply` to a scratch copy of /repo (src+tests) under /tmp, check run with VERIF_REPO=<copy> VERIF_SEED=0; copy removed afterwards (a background thorough run was using /repo itself at the time)"
old = {}
mp = os.path.join(dst, "meta.json")
if os.path.exists(mp):
    old = json.load(open(mp))
old.update(meta)
json.dump(old, open(mp, "w"), indent=1)
