#!/usr/bin/env python3
"""crosscheck.py <seeded dir name> <check id> [tier]: run ANOTHER property's check against a seeded change
(scratch copy of /repo under /tmp with seeded/<dir>/patch.diff applied); prints exit code and unlisted signatures"""
import os, subprocess, sys
sys.path.insert(0, os.path.dirname(os.path.abspath(__file__)))
from mut import Mutant, VERIF
d, cid = sys.argv[1], sys.argv[2]
tier = sys.argv[3] if len(sys.argv) > 3 else "quick"
with Mutant("x-" + d) as m:
    subprocess.run(["git", "apply", "--whitespace=nowarn", os.path.join(VERIF, "seeded", d, "patch.diff")], cwd=m.dir, check=True)
    r = subprocess.run([os.path.join(VERIF, "check"), cid, tier], env=dict(os.environ, VERIF_REPO=m.dir, VERIF_SEED="0"), capture_output=True, text=True)
    lines = r.stdout.strip().splitlines()
    sigs = sorted({l.strip()[len("signature="):].split(" count=")[0] for l in lines if l.strip().startswith("signature=")})
    print(f"[{d}] {cid} {tier}: exit={r.returncode} {sigs[:6]}")
