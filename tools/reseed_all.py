#!/usr/bin/env python3
"""reseed_all.py [jobs] [filter]: re-run the quick check of every kept seeded change (scratch copy of /repo under /tmp with
seeded/<dir>/patch.diff applied) and list the ones the check no longer reports (development-time regression of the checks)"""
import json, os, subprocess, sys
from concurrent.futures import ThreadPoolExecutor
sys.path.insert(0, os.path.dirname(os.path.abspath(__file__)))
from mut import Mutant, VERIF

jobs = int(sys.argv[1]) if len(sys.argv) > 1 else 4
flt = sys.argv[2] if len(sys.argv) > 2 else ""
dirs = sorted(d for d in os.listdir(os.path.join(VERIF, "seeded")) if os.path.exists(os.path.join(VERIF, "seeded", d, "patch.diff")) and flt in d)


def one(d):
    pid = d.split("-")[0]
    meta = {}
    mp = os.path.join(VERIF, "seeded", d, "meta.json")
    if os.path.exists(mp):
        meta = json.load(open(mp))
    if str(meta.get("status", "")).startswith("superseded"):
        return d, "superseded", []
    with Mutant("re-" + d) as m:
        a = subprocess.run(["git", "apply", "--whitespace=nowarn", os.path.join(VERIF, "seeded", d, "patch.diff")], cwd=m.dir, capture_output=True, text=True)
        if a.returncode != 0:
            return d, "patch-does-not-apply", []
        r = subprocess.run([os.path.join(VERIF, "check"), pid, "quick"], env=dict(os.environ, VERIF_REPO=m.dir, VERIF_SEED="0", VERIF_NO_EVIDENCE="1"),
                           capture_output=True, text=True)
        sigs = sorted({l.strip()[len("signature="):].split(" count=")[0] for l in r.stdout.splitlines() if l.strip().startswith("signature=")})
        return d, r.returncode, sigs[:4]


with ThreadPoolExecutor(jobs) as ex:
    bad = 0
    for d, rc, sigs in ex.map(one, dirs):
        if rc != 1:
            bad += 1
            print(f"NOT-REPORTED {d}: {rc}", flush=True)
        else:
            print(f"ok {d} {sigs[:2]}", flush=True)
print(f"{len(dirs)} seeded changes, {bad} not reported")
