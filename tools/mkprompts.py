#!/usr/bin/env python3
"""writes /tmp/prompt-<ID>.txt for a seeded-change round and creates the scratch worktrees /tmp/wt-<ID>.
usage: mkprompts.py "<flavour sentence>"   (earlier ideas per property are read from seeded/*/meta.json and excluded)"""
import glob, json, os, subprocess, sys
flavour = sys.argv[1] if len(sys.argv) > 1 else ""
for l in open('/verif/properties.jsonl'):
    p = json.loads(l); i = p['id']
    prev = []
    for f in sorted(glob.glob(f'/verif/seeded/{i}*/meta.json')):
        m = json.load(open(f))
        if m.get('change'):
            prev.append(f"- {m['change']} (manifests with: {m.get('needs_to_manifest', '?')})")
    txt = f"""You are helping to test a verification suite by producing one realistic bug. Work ONLY inside the git worktree /tmp/wt-{i} (a checkout of the pure-Python discrete-event simulation library pydsol-core: library source under src/pydsol/core, its tests under tests/). Do not read or write anything under /verif or /repo, and do not commit.

TASK: make ONE small change to the library source that BREAKS the property below while the library's existing test suite still passes completely.

PROPERTY {i} - {p['title']}
Statement: {p['statement']}
Quantified over: {p['quantifier']['text']}
Relevant files: {', '.join(p['anchors']['files'])}

REQUIREMENTS
1. The change must need something specific to manifest: a particular multi-step sequence of operations, an unusual input, a particular interleaving or fault at a particular point, or two cooperating code sites that each look fine alone. It must NOT be something ordinary use would expose at once. It should look like a plausible regression a developer could introduce (refactoring slip, 'optimisation', off-by-one, wrong comparison, stale cache, missing reset), not sabotage, and it must be a genuine violation of the statement above (not merely a style or message change). {flavour}
   These ideas were used in earlier rounds: do NOT reuse them or close variants, find a different clause of the statement, a different code site or a different trigger:
{chr(10).join(prev) if prev else '   (none)'}
2. The full existing suite must still pass. Run exactly: cd /tmp/wt-{i} && PYTHONPATH=/tmp/wt-{i}/src /venv/bin/python -m pytest -q -p no:cacheprovider tests   (the PYTHONPATH matters: without it the tests import a different copy of the library). It takes about 15 s; 111 tests must pass.
3. Write a demonstration script /tmp/wt-{i}/demo_{i}.py (plain Python, uses only the library's public API; prints what it observed; exits with code 1 when the property is violated and 0 otherwise). It must exit 1 with your change and exit 0 on the unmodified tree: verify both (to test the unmodified tree do NOT use `git stash` - the stash is shared with other worktrees of this repository and other people work in those at the same time; instead save your change with `git -C /tmp/wt-{i} diff -- src > /tmp/wt-{i}/patch.diff`, undo it with `git -C /tmp/wt-{i} apply -R /tmp/wt-{i}/patch.diff`, run the demo, and re-apply it with `git -C /tmp/wt-{i} apply /tmp/wt-{i}/patch.diff`). Run it as: cd /tmp/wt-{i} && PYTHONPATH=/tmp/wt-{i}/src /venv/bin/python demo_{i}.py . If your demo uses the simulator, always call simulator.cleanup() in a finally block (its worker thread is non-daemon and would keep the interpreter alive) and never rely on wall-clock sleeps for the verdict.
4. The source files use CRLF line endings: preserve them (e.g. edit with a small Python script that reads and writes bytes, replacing b'...\\r\\n' sequences), so that `git diff` shows only your intended lines. Do not touch tests/.
5. When done, save the patch: git -C /tmp/wt-{i} diff -- src > /tmp/wt-{i}/patch.diff  (leave the change applied in the worktree).

REPORT BACK (concisely): the diff, what is needed for the bug to manifest, the last line of the pytest run with the change, and the demo's output and exit code with and without the change."""
    open(f'/tmp/prompt-{i}.txt', 'w').write(txt)
    if not os.path.isdir(f'/tmp/wt-{i}'):
        subprocess.run(['git', '-C', '/repo', 'worktree', 'add', '-q', '--detach', f'/tmp/wt-{i}', 'HEAD'], check=True)
print("prompts and worktrees ready")
