#!/bin/bash
# diagnostic: line coverage of /repo/src/pydsol/core under the quick tier of every check (or the ids given)
# -> .tmp/reach/report.txt ; lists the library lines that no monitor workload drives
cd "$(dirname "$0")/.."
D=$PWD/.tmp/reach; rm -rf "$D"; mkdir -p "$D"
ids=${@:-C01 C02 C03 C04 C05 C06 C07 C08 C09 C10 C11 C12 C13 C14 C15 C16 C17 C18}
for id in $ids; do VERIF_COVERAGE=$D ./check $id quick | tail -1; done
cd "$D" && /venv/bin/python -m coverage combine --data-file=$D/.coverage $D/cov.* >/dev/null && /venv/bin/python -m coverage report --data-file=$D/.coverage -m > report.txt; tail -15 report.txt
