#!/usr/bin/env python3
"""regenerate MANIFEST.json from the table below + the check modules that exist"""
import json, os, sys
ROOT = os.path.dirname(os.path.dirname(os.path.abspath(__file__)))
sys.path.insert(0, ROOT)

LEVELS = {
 "C01": ("exploration", "4.C01", "Lock-step reference model over every operation history of length <= 5 (quick) / 6 (thorough) on 4 events plus tens of thousands of random histories with interior removals; held = no observed return value or drain order differed from a sorted set.", "Python's float/int/Duration ordering; events are not added twice while pending."),
 "C12": ("exploration", "4.C12", "Every draw of tens of thousands of generated scripts is compared bit-for-bit between a stream, its twin, a solo run and runs interleaved with an unrelated stream; reset/set_seed judged against a fresh stream, restore against the recorded continuation. Held = no difference observed on the scripts run.", "CPython's random.Random is the generator underneath; spans below 2^1024."),
 "C16": ("exploration", "4.C16", "Exhaustive over the finite configuration space the statement names (all 41x41 ordered type pairs for * and /, every class against numbers and SI values, all SI signatures with <=3 non-zero exponents in all 8 print formats), sampled beyond it (random full signatures and values). Oracle = signature calculus + one IEEE operation, compared bit-for-bit.", "Quantity.sisig() of a named class is taken as that class's dimension; finite non-zero operand values."),
 "C17": ("exploration", "4.C17", "Exhaustive over the declaration tables: all 838 declared units of all 41 classes x 9 values, all (unit, unit2) re-expressions per class, all display aliases, all base units, all names in __all__ (also in a fresh interpreter); 231 compound and 429 SI-prefixed spellings recomputed from other declared units; plus random (class, unit, unit2, value) quadruples. Oracle = value*factor bit-for-bit.", "The class tables documented in Quantity's docstring are the declarations; compound spellings that cannot be resolved into declared atoms are counted, not judged."),
 "C18": ("exploration", "4.C18", "Thousands of generated operation histories on parameter trees (all eight classes, valid/invalid constructions, sets through object and model, get/remove by dotted key) stepped against a reference tree; the whole real tree is audited after every operation and icontract class invariants run at every public call in a quarter of the shards. Held = no audit, invariant or outcome differed.", "bool-for-int and Quantity-for-float are accepted either way; keys are relative to the root map."),
 "C08": ("exploration", "4.C08", "Tens of thousands of generated subscribe/unsubscribe/fire histories with re-entrant listener scripts; the complete delivery log (listener, type, unique content id, timestamp) of every top-level operation is compared with an executable reference subscription model, has_listeners() after every operation; generated payload shapes against generated metadata declarations. Held = no log differed, no non-conforming event was created.", "Only 'created => conforms' is judged for metadata; recursion bounded at depth 3 / 2 activations per (listener, type) in both model and real run."),
 "C09": ("exploration", "4.C09", "Every public getter (both bias flags, alpha in {0,.01,.05,.5,1}) after operations of thousands of generated observation sequences (degenerate, ill-conditioned, large n, resets, rejected inputs) compared with exact rational arithmetic under conditioning-aware tolerances (largest observed error/tolerance ratio is reported); NaN structure and totality judged always. Held = no getter raised or left its tolerance.", "Finite observations with |x| in {0} or [1e-6,1e12]; statistics whose tolerance exceeds 1e-3 are judged for totality only; SAS/Excel form of the unbiased skewness."),
 "C10": ("exploration", "4.C10", "All public getters after every operation of thousands of generated (weight, value) and (time, value) histories (zero and all-zero weights, repeated timestamps, closing, use after closing, re-initialisation, rejected inputs) compared with exact rational weighted moments and the exact integral of the step function; total weight pinned to the span through weighted_sum/weighted_mean. Held = no getter raised or left its tolerance, no ignored/rejected input changed a getter.", "Finite inputs in the stated envelope; undefined statistics at total weight 0 judged for totality only; n/min/max of the timestamp variant not judged."),
 "C13": ("exploration", "4.C13", "Generated stream/seed-table configurations are evaluated in 5 child interpreters with different PYTHONHASHSEED values; seed and first draws per stream must agree across interpreters, across listing orders, with the stream updated alone, and after unrelated prior use; table semantics and the fallback are checked per stream; invalid replication numbers must be refused without touching the stream (twin comparison). Held = all observations agreed.", "Differences that only show with hash seeds not sampled are not seen; bool replication numbers not judged."),
 "C14": ("exploration", "4.C14", "Thousands of (class, parameter) cells over all 19 distributions: twin / interleaved / re-pointed instances compared draw by draw on instrumented streams (old stream frozen and watched for 200 draws), every draw support-checked, and extreme uniforms (0.0, subnormal, 2^-53, 0.5, 1-2^-53; single and adjacent pairs) spliced into every position the first draws consume; out-of-domain parameters must be refused, in-domain ones (incl. closed end points) must construct and draw. Held = nothing raised / differed / left the support, apart from the listed known findings.", "Numeric envelope stated in the evidence assumptions; +inf satisfies the statement's inequalities literally and is counted, not judged."),
 "C15": ("exploration", "4.C15", "Per (class, parameter) cell (fixed grid reaching every sampler branch + random cells): declared density/pmf compared pointwise with scipy closed forms, sign/support/normalisation checked by piecewise quadrature against closed-form masses or window sums, and a seeded sample of 20000 real draws tested with KS and chi-square under a two-stage rule (flag p<1e-5, confirm on a fresh 300000-draw sample at p<1e-7); cdf/icdf/erf_inv monotone, consistent with the density and mutually inverse. Held = no cell failed.", "Statistical: false-alarm bound 1e-12 per test; shape errors below KS distance ~0.005 are not detectable; scipy closed forms are the reference."),
 "C02": ("exploration", "4.C02", "Thousands of generated model programs on the float, int and Duration clocks are executed by the real simulator and by a 200-line reference DEVS interpreter; the handler log (tag, clock inside the handler), the outcome and pending-size effect of every scheduling request, every write of the clock (attribute tap) and the final clock are compared bit-for-bit. Held = all histories agreed.", "Programs without failing handlers under start() to the replication end; an illegal request counts as refused when it raises and the pending size is unchanged."),
 "C03": ("exploration", "4.C03", "Generated programs x generated segmentation schedules (bounded runs exclusive/inclusive, steps, pauses forced deterministically by parking a handler at a gate while stop() is issued, cuts at/between event times, at warm-up, at/beyond the end, before the clock): after every segment the executed events, clock, state, pending size and END_REPLICATION notification are compared with the reference interpreter, and the concatenation with one uninterrupted run. Held = all segments and compositions agreed.", "Open points of the statement are accepted in every reading (listed in the evidence assumptions); pauses land between events, never inside the library's own transitions (that is C04)."),
 "C05": ("fault_enumeration", "4.C05", "For every generated program each single executed event is made to fail in turn (all singles), then pairs and random subsets, at varying positions inside the handler, under log/warn/pause strategies and start / bounded / step / mixed drivers; after every run segment the executed events, state, clock and pending size are compared with the reference interpreter (continue = as if the handler had returned at the raise; pause = stop right after the failing event, resume runs exactly the rest). Held = all fault sets explored agreed.", "Fault = exception raised by the handler; WARN_AND_END/EXIT outside the statement; a failing step may return or raise DSOLError."),
 "C06": ("exploration", "4.C06", "Differential: after a generated prior history (fresh / stepped / paused at an event / bounded run / ended / ended twice / paused by a handler fault / cleaned up / initialise refused while running) the same simulator and model are initialised again and run; trace, clock, state, notification stream, every statistics getter (hex) and the output-statistic map are compared with the same replication on a brand-new simulator; the state right after initialize is compared too. Held = no difference on the histories explored.", "Streams are re-created with the same seed in construct_model; same model object and replication settings."),
 "C11": ("exploration", "4.C11", "Generated programs with observation actions (register and data events; float/int/Duration clocks; warm-up at 0 / inside / at the end; ties at the warm-up instant; optional forced pauses): one global timeline of handlers, notifications and observations; at the end every simulation statistic equals bit-for-bit an ordinary statistic fed the post-warm-up observations (persistent: closed at the end, plus exact rational time average), the WARMUP notification sits after all earlier events and before every priority<10 event of its instant, statistics are retrievable under their key, and every published payload equals the getter called inside that notification. Held = all agreed.", "Observations made at exactly the warm-up time before the warm-up notification are ambiguous in the statement and not value-judged."),
}

def main():
    from vlib.runner import CHECKS
    import importlib
    checks = []
    na = []
    for pid in sorted(CHECKS):
        path = os.path.join(ROOT, CHECKS[pid].replace(".", "/") + ".py")
        if pid in LEVELS and os.path.exists(path):
            mod_level, ref, text, note = LEVELS[pid]
            m = importlib.import_module(CHECKS[pid])
            checks.append({
                "property_id": pid,
                "quick_cmd": f"./check {pid} quick",
                "thorough_cmd": f"./check {pid} thorough",
                "evidence_file": f"evidence/{pid}.json",
                "replay_cmd_template": f"./check {pid} --replay {{path}}",
                "engine": "vlib",
                "level_claimed": {"category": mod_level, "text": text, "design_ref": ref},
                "level_note": note,
                "technique": m.TECHNIQUE,
            })
        else:
            na.append({"property_id": pid, "reason": "check not yet built in this round (runtime monitor planned in DESIGN.md section 4); not claimed until it runs clean"})
    man = {
        "version": 1,
        "setup_cmd": "./setup.sh",
        "hooks": {"guard": "AVERBRAECK_PYDSOL_CORE_VERIF", "enable": "export AVERBRAECK_PYDSOL_CORE_VERIF=1 (set by ./check; no source hooks are needed: all monitors attach from /verif at run time)",
                  "baseline_off_cmd": "./tools/baseline.sh", "source_commits": [], "add_only": True},
        "engines": [{"name": "vlib", "path": "vlib/", "serves_properties": [c["property_id"] for c in checks],
                     "kind_free_text": "runtime monitors (reference models, protocol automata, exact-arithmetic and statistical oracles, cross-process differential runs) driven by seeded generated workloads in sharded child interpreters"}],
        "checks": checks,
        "notes": "Runtime-monitoring family only. ./check <ID> <tier> [--replay PATH]; VERIF_SEED seeds everything. Exit 0 held / 1 VIOLATION / 2 INCONCLUSIVE. known_findings.json lists recorded defects and fix commits.",
        "not_applicable": na,
    }
    json.dump(man, open(os.path.join(ROOT, "MANIFEST.json"), "w"), indent=1)
    print("checks:", [c["property_id"] for c in checks], "na:", len(na))

main()
