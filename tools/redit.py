"""CRLF-preserving exact replacement helper for edits to /repo (all its sources use CRLF)"""
import sys


def sub(path, old, new, count=1):
    data = open(path, "rb").read()
    crlf = b"\r\n" in data
    o = old.encode()
    n = new.encode()
    if crlf:
        o = o.replace(b"\r\n", b"\n").replace(b"\n", b"\r\n")
        n = n.replace(b"\r\n", b"\n").replace(b"\n", b"\r\n")
    c = data.count(o)
    if c != count:
        raise SystemExit(f"{path}: expected {count} occurrence(s) of old text, found {c}")
    open(path, "wb").write(data.replace(o, n))
