#!/bin/bash
# setup_cmd: offline install of helper libraries into git-ignored .deps
set -e
ROOT="$(cd "$(dirname "$0")" && pwd)"
cd "$ROOT"
export PIP_NO_INDEX=1
if [ ! -f .deps/.ok ]; then
  rm -rf .deps
  /venv/bin/pip install --quiet --no-index --find-links /opt/veriftools/wheels \
     --target .deps icontract deal numpy scipy mpmath jsonschema >/dev/null
  touch .deps/.ok
fi
PYTHONPATH="$ROOT:$ROOT/.deps" /venv/bin/python -B -c "import icontract, numpy, scipy, mpmath, jsonschema; print('deps ok')"
mkdir -p evidence replays
